"""C12 - colour balancing recovers exact colour maps and composes correctly."""
import numpy as np
import scipy.optimize
from hypothesis import strategies as st

from darsia.corrections.color import colorbalance as cb
from vf.runner import Outcome, Prop, Sub, Violation

EPS = np.finfo(float).eps
MODES = ("diagonal", "linear", "affine")
PLAIN = {"diagonal": cb.WhiteBalance, "linear": cb.ColorBalance, "affine": cb.AffineBalance}

# Powell (tol=1e-6) on exact maps of these well-conditioned swatch sets ends within 2e-10 (single
# fit) / 1e-8 (three stages) of the targets in all but ~1 of 30 000 fits; in those rare cases the
# search stalls (its termination test is met far from the optimum: observed 3e-5 and 1e-3).  A
# stall is a property of the documented optimiser, not of the balance code, so a case that misses
# the tolerance is only reported if an independent run of the documented optimiser (scipy Powell,
# tol 1e-6, maxiter 1000, identity start, row-vector least-squares objective) on the same problem
# does reach it; otherwise the case is outside the domain ("problems on which the optimiser
# converges") and is counted as skipped.
TOL_FIT = 1e-6
TOL_STAGED = 2e-6


def ref_fit(mode, src, dst, start=None):
    """Independent run of the documented optimiser -> (A, b); start = (A0, b0) the balance the
    search starts from (default: the identity)."""
    src, dst = np.asarray(src, dtype=float), np.asarray(dst, dtype=float)
    a0, b0 = (np.eye(3), np.zeros(3)) if start is None else start
    if mode == "diagonal":
        def f(p):
            return np.sum((src @ np.diag(p) - dst) ** 2)
        x0 = np.diag(a0).copy()
    elif mode == "linear":
        def f(p):
            return np.sum((src @ p.reshape((3, 3)) - dst) ** 2)
        x0 = np.array(a0, dtype=float).flatten()
    else:
        def f(p):
            return np.sum((src @ p[:9].reshape((3, 3)) + p[9:12] - dst) ** 2)
        x0 = np.concatenate((np.array(a0, dtype=float).flatten(), np.array(b0, dtype=float)))
    res = scipy.optimize.minimize(f, x0, method="Powell", tol=1e-6,
                                  options={"maxiter": 1000, "disp": False})
    if mode == "diagonal":
        return np.diag(res.x), np.zeros(3)
    if mode == "linear":
        return res.x.reshape((3, 3)), np.zeros(3)
    return res.x[:9].reshape((3, 3)), res.x[9:12]


def ref_staged(stages, x):
    """Reference staged fit with the row-vector composition: stages = [(mode, src_k, dst_k)];
    returns the accumulated map applied to x."""
    a_acc, b_acc = np.eye(3), np.zeros(3)
    for mode, s_k, d_k in stages:
        a, b = ref_fit(mode, s_k @ a_acc + b_acc, d_k)
        a_acc, b_acc = a_acc @ a, b_acc @ a + b
    return x @ a_acc + b_acc


# ---------------------------------------------------------------------------------------
# deterministic construction of swatches / maps from seeds
# ---------------------------------------------------------------------------------------


def make_swatches(sw):
    """Well-conditioned swatch set: offset + orthonormal frame x singular values in [0.3, 1]."""
    rng = np.random.default_rng(sw["pseed"])
    n = 24 if sw["layout"] == "4x6" else sw["N"]
    g = rng.standard_normal((n, 3))
    g -= g.mean(axis=0)
    u, _ = np.linalg.qr(g)
    s = rng.uniform(0.3, 1.0, 3)
    v, _ = np.linalg.qr(rng.standard_normal((3, 3)))
    off = rng.uniform(0.3, 0.7, 3)
    flat = off + 0.25 * np.sqrt(n) * (u * s) @ v.T
    return flat.reshape(4, 6, 3) if sw["layout"] == "4x6" else flat


STRUCTS = ("generic", "offset", "identity")


def eff_struct(mode, struct):
    """The structured special members of the class `mode`: "offset" = identity matrix with a
    non-zero translation (a pure colour shift; only the affine class has it), "identity" = the
    identity map (member of every class)."""
    if struct == "offset" and mode != "affine":
        return "identity"
    return struct


def make_map(rng, mode, struct="generic"):
    """Ground-truth map of the class `mode` near the identity -> (A, b)."""
    struct = eff_struct(mode, struct)
    if struct == "identity":
        return np.eye(3), np.zeros(3)
    if struct == "offset":
        b = rng.uniform(0.02, 0.1, 3) * rng.choice([-1.0, 1.0], 3)
        return np.eye(3), b
    if mode == "diagonal":
        return np.diag(1.0 + 0.3 * rng.uniform(-1, 1, 3)), np.zeros(3)
    a = np.eye(3) + 0.15 * rng.uniform(-1, 1, (3, 3))
    b = rng.uniform(-0.1, 0.1, 3) if mode == "affine" else np.zeros(3)
    return a, b


def ref_apply(x, a, b):
    """Row-vector convention written out without matmul: out[..., j] = sum_i x[..., i] a[i, j] + b[j]."""
    out = np.zeros(x.shape[:-1] + (3,))
    for j in range(3):
        out[..., j] = x[..., 0] * a[0, j] + x[..., 1] * a[1, j] + x[..., 2] * a[2, j] + b[j]
    return out


def residual(bal, src, dst):
    return float(np.sum((np.asarray(bal.apply_balance(src)) - dst) ** 2))


def stage_params(bal):
    a = np.array(bal.balance_scaling, dtype=float)
    b = np.array(getattr(bal, "balance_translation", np.zeros(3)), dtype=float)
    return a, b


def subset(arr, which):
    """Swatch sub-sets as the colour correction uses them (a row of the 4x6 chart / the rest)."""
    if which == "all":
        return arr
    if arr.ndim == 3:
        return arr[-1] if which == "head" else arr[:-1]
    return arr[:4] if which == "head" else arr[4:]


# data classes of the swatches handed to the fit: the balance is a scale-free least-squares fit, and
# swatches arrive as float64, as float32 (what ColorCorrection extracts and passes on), or on the
# 8 / 16 bit scale (ColorChecker.swatches_RGB is uint8) as integer-typed or real arrays
DATA = ("unit", "f32", "u8", "u16", "x255")


def cast_swatches(src, data):
    """-> (swatches of the data class, scale of their values)."""
    if data == "f32":
        return src.astype(np.float32), 1.0
    if data == "u8":
        return np.round(np.clip(src, 0.0, 1.0) * 255.0).astype(np.uint8), 255.0
    if data == "u16":
        return np.round(np.clip(src, 0.0, 1.0) * 65535.0).astype(np.uint16), 65535.0
    if data == "x255":
        return src * 255.0, 255.0
    return src, 1.0


def assert_untouched(what, now, before, tags):
    """Fitting / applying a balance reads its arguments: the caller's swatches (ColorCorrection
    passes views of its stored reference swatches) and image are the same afterwards."""
    if now.dtype != before.dtype or now.shape != before.shape or not np.array_equal(now, before):
        raise Violation(f"argument-modified:{what}", f"the {what} array handed to the balance was "
                        f"modified in place", tags)


# flat Nx3 sets start at N = 4: the smallest set that determines a map of every class (an affine map
# has 12 unknowns, a swatch gives 3 equations), where the fit interpolates instead of regressing;
# make_swatches keeps the centred singular values independent of N, so these sets are as well
# conditioned as the big ones
N_MIN = 4


@st.composite
def swatch_specs(draw):
    layout = draw(st.sampled_from(["4x6", "flat"]))
    n = 24 if layout == "4x6" else draw(st.one_of(st.sampled_from([N_MIN, N_MIN, N_MIN + 1]),
                                                  st.integers(6, 40), st.integers(6, 40)))
    return {"layout": layout, "N": n, "pseed": draw(st.integers(0, 2**20))}


def _sw_labels(sw):
    if sw["layout"] == "flat" and sw["N"] <= 7:
        return (sw["layout"], "N-minimal" if sw["N"] == N_MIN else "N-small")
    return (sw["layout"],)


def _nonsym(a):
    return bool(np.linalg.norm(a - a.T) > 0.05)


# ---------------------------------------------------------------------------------------
# 1. recovers_exact_map
# ---------------------------------------------------------------------------------------

# "adaptive-default": AdaptiveBalance.find_balance without a mode (documented default: affine);
# "call-adaptive": the callable form of AdaptiveBalance (fits with the default mode)
VARIANTS = ["white", "color", "affine", "adaptive-diagonal", "adaptive-linear", "adaptive-affine",
            "fn-white", "fn-color", "fn-affine", "call-white", "call-color", "call-affine",
            "adaptive-default", "call-adaptive"]
VMODE = {"white": "diagonal", "color": "linear", "affine": "affine", "adaptive": "affine",
         "default": "affine"}
STARTS = ("fresh", "prefit", "manual")


def gen_exact(tier):
    return st.fixed_dictionaries({
        "sw": swatch_specs(),
        "variant": st.sampled_from(VARIANTS),
        # the ground truth may be of a smaller class than the fitted one (diagonal < linear < affine)
        # "bigger": the targets are not representable; only the structure of the fitted class is
        # asserted (white balance stays diagonal, linear balance maps black to black)
        # "offset" / "identity": the structured members of the affine class (identity matrix with
        # a non-zero translation = pure colour shift) and of every class (the identity map); for a
        # diagonal / linear fit a pure shift is a target of a bigger class
        "truth": st.sampled_from(["same", "same", "same", "smaller", "bigger", "offset", "offset",
                                  "identity"]),
        "mseed": st.integers(0, 2**20),
        # data class of the swatches (see DATA) and, for the plain classes and their callable form,
        # the state of the object before the fit: fresh, fitted before to other (noisy) targets,
        # or parameters written by hand - the search starts at the current balance
        "data": st.sampled_from(["unit", "unit"] + list(DATA[1:])),
        "start": st.sampled_from(["fresh", "fresh", "prefit", "manual"]),
    })


def enum_exact(tier):
    """Every class / shortcut x ground-truth relation x layout, deterministically (the random
    sub-check above does not hit each of the 72 combinations in the quick tier)."""
    out = []
    for k in range(2 if tier == "quick" else 16):
        for variant in VARIANTS:
            for truth in ("same", "smaller", "bigger", "offset", "identity"):
                # flat sets: the exactly determining set first, then growing ones
                for layout, n in (("4x6", 24), ("flat", N_MIN if k == 0 else 6 + 5 * k)):
                    out.append({"sw": {"layout": layout, "N": n, "pseed": 1000 + k}, "variant": variant,
                                "truth": truth, "mseed": 77 + k})
    return out


def _variant_mode(variant):
    head, _, tail = variant.partition("-")
    if head == "adaptive":
        return VMODE.get(tail, tail)
    return VMODE[tail or head]


def check_recovers_exact_map(case):
    sw, variant = case["sw"], case["variant"]
    data = case.get("data", "unit")  # replays recorded before the keys existed
    head = variant.split("-")[0]
    start = case.get("start", "fresh") if head in ("white", "color", "affine", "call") \
        and variant != "call-adaptive" else "fresh"
    src, scale = cast_swatches(make_swatches(sw), data)
    src_f = src.astype(float)
    rng = np.random.default_rng(case["mseed"])
    mode = _variant_mode(variant)
    tmode = mode
    if case["truth"] == "smaller" and mode != "diagonal":
        tmode = MODES[MODES.index(mode) - 1]
    bigger = case["truth"] == "bigger" and mode != "affine"
    if bigger:
        tmode = MODES[MODES.index(mode) + 1]
    struct = case["truth"] if case["truth"] in ("offset", "identity") else "generic"
    if struct == "offset" and mode != "affine":
        bigger, tmode = True, "affine"  # a pure colour shift is not a diagonal / linear map
    a, b = make_map(rng, tmode, struct)
    b = b * scale
    dst = ref_apply(src_f, a, b)
    if data == "f32":
        dst = dst.astype(np.float32)  # the reference swatches of a colour checker are float32
    dst_f = dst.astype(float)
    img = scale * rng.integers(0, 9, size=(3, 4, 3)) / 8.0
    if bigger:
        img = np.concatenate((np.eye(3), np.zeros((1, 3))), axis=0)  # unit colours and black
    tags = {"variant": variant, "mode": mode, "truth": tmode, "layout": sw["layout"], "map": struct,
            "data": data, "start": start}
    # max-abs tolerance on the swatches: optimiser tolerance relative to the scale of the data
    # (+ the rounding of float32 targets, which makes the map inexact by half an ulp)
    tol = TOL_FIT * scale + (2.0 ** -23 * float(np.abs(dst_f).max()) if data == "f32" else 0.0)
    src0, dst0, img0 = src.copy(), dst.copy(), img.copy()
    got_img = None
    x0 = None
    if head in ("fn", "call") and variant != "call-adaptive" or head in ("white", "color", "affine"):
        bal = PLAIN[mode]()
        if start == "prefit":
            a1, b1 = make_map(rng, mode)
            other = ref_apply(src_f, a1, b1 * scale) + 0.05 * scale * rng.uniform(-1, 1, dst.shape)
            bal.find_balance(src, other)
            x0 = stage_params(bal)
        elif start == "manual":
            a1, b1 = make_map(rng, mode)
            bal.balance_scaling = a1.copy()
            if mode == "affine":
                bal.balance_translation = b1 * scale
            x0 = (a1, b1 * scale)
    if head == "fn":
        fn = {"diagonal": cb.white_balance, "linear": cb.color_balance, "affine": cb.affine_balance}[mode]
        got = np.asarray(fn(src, src, dst))
        got_img = np.asarray(fn(img, src, dst))
    elif head == "call":
        if variant == "call-adaptive":
            bal = cb.AdaptiveBalance()
        got_img = np.asarray(bal(img, src, dst))
        got = np.asarray(bal.apply_balance(src))
    elif head == "adaptive":
        bal = cb.AdaptiveBalance()
        if variant == "adaptive-default":
            bal.find_balance(src, dst)
        else:
            bal.find_balance(src, dst, mode=mode)
        got = np.asarray(bal.apply_balance(src))
        got_img = np.asarray(bal.apply_balance(img))
    else:
        bal.find_balance(src, dst)
        got = np.asarray(bal.apply_balance(src))
        got_img = np.asarray(bal.apply_balance(img))
    assert_untouched("source-swatches", src, src0, tags)
    assert_untouched("destination-swatches", dst, dst0, tags)
    assert_untouched("image", img, img0, tags)
    labels = _sw_labels(sw) + (variant, f"data-{data}", f"start-{start}")
    if bigger:
        # structure of the class: diagonal balances map each unit colour to a multiple of itself,
        # diagonal and linear balances map black to black (exact: sums of exact zeros)
        if got_img.shape != img.shape:
            raise Violation("shape", f"{variant}: {img.shape} -> {got_img.shape}", tags)
        if np.any(got_img[3] != 0.0):
            raise Violation(f"not-in-class:{mode}", f"{variant}: black is mapped to {got_img[3].tolist()} "
                            f"by a {mode} balance", tags)
        off = got_img[:3][~np.eye(3, dtype=bool)]
        if mode == "diagonal" and np.any(off != 0.0):
            raise Violation("not-in-class:diagonal", f"{variant}: a white balance fitted to non-diagonal "
                            f"targets mixes channels (off-diagonal {float(np.abs(off).max()):.3e})", tags)
        return Outcome(True, key=[sw, variant, case["mseed"], tmode, struct, data, start, "bigger"],
                       labels=labels + ("truth-bigger", f"map-{struct}"))
    if got.shape != dst.shape:
        raise Violation("shape", f"{variant}: balanced swatches have shape {got.shape}", tags)
    err = float(np.abs(got - dst_f).max())
    if not err <= tol:
        ra, rb = ref_fit(mode, src_f, dst_f, x0)
        ref_err = float(np.abs(ref_apply(src_f, ra, rb) - dst_f).max())
        if not ref_err <= tol:
            return Outcome(False, status="skipped", labels=("optimiser-stalled",))
        raise Violation(f"not-recovered:{mode}", f"{variant} on an exact {tmode} map ({struct}; swatches "
                        f"{data}, object {start}): max |apply(src) - dst| "
                        f"= {err:.3e} (tol {tol:.1e}; an independent Powell run reaches {ref_err:.1e})", tags)
    want = ref_apply(img, a, b)
    # extrapolation from the swatches to arbitrary colours in [0,1]^3 * scale: the fitted parameters
    # are determined to tol / smallest singular value of the (centred) swatches (>= 0.075)
    same_shape = got_img.shape == want.shape
    e2 = float(np.abs(got_img - want).max()) if same_shape else float("inf")
    if not e2 <= 40 * tol:
        raise Violation(f"image-not-mapped:{mode}", f"{variant}: image passed through the fitted balance "
                        f"differs from the ground-truth map by {e2:.3e} (swatches {data}, object {start})", tags)
    return Outcome(nontrivial=_nonsym(a) or tmode == "diagonal" and mode == "diagonal" and struct == "generic"
                   or struct == "offset",
                   key=[sw, variant, case["mseed"], tmode, struct, data, start],
                   labels=labels + (f"truth-{tmode}", f"map-{struct}"))


# ---------------------------------------------------------------------------------------
# 2. residual_never_increases
# ---------------------------------------------------------------------------------------


def gen_residual(tier):
    return st.fixed_dictionaries({
        "sw": swatch_specs(),
        "cls": st.sampled_from(["white", "color", "affine", "adaptive"]),
        "modes": st.lists(st.sampled_from(MODES), min_size=1, max_size=3),
        "start": st.sampled_from(["identity", "prefit", "manual", "optimal", "optimal"]),
        "dst": st.sampled_from(["exact", "noisy", "generic"]),
        "structs": st.lists(_STRUCT, min_size=3, max_size=3),
        "mseed": st.integers(0, 2**20),
    })


_STRUCT = st.sampled_from(["generic", "generic", "generic", "offset", "offset", "identity"])


def _structs_of(case):
    return case.get("structs", ["generic"] * 3)  # replays recorded before the key existed


def _targets(rng, src, kind, mode, struct="generic"):
    a, b = make_map(rng, mode, struct)
    dst = ref_apply(src, a, b)
    if kind == "noisy":
        dst = dst + 0.05 * rng.uniform(-1, 1, dst.shape)
    elif kind == "generic":
        dst = rng.uniform(0, 1, dst.shape)
    return dst, a, b


def check_residual(case):
    sw, cls = case["sw"], case["cls"]
    src = make_swatches(sw)
    rng = np.random.default_rng(case["mseed"])
    tags = {"cls": cls, "start": case["start"], "dst": case["dst"], "layout": sw["layout"]}
    n = 0
    if cls != "adaptive":
        mode = VMODE[cls]
        bal = PLAIN[mode]()
        structs = [eff_struct(mode, _structs_of(case)[0])]
        dst, a, b = _targets(rng, src, case["dst"], mode, structs[0])
        if case["start"] == "prefit":
            other, _, _ = _targets(rng, src, "noisy", mode)
            bal.find_balance(src, other)
        elif case["start"] == "manual":
            a0, b0 = make_map(rng, mode)
            bal.balance_scaling = a0
            if mode == "affine":
                bal.balance_translation = b0
        elif case["start"] in ("optimal", "polished"):
            # start at the least-squares optimum of the class (closed form): a fit that starts at
            # the current balance cannot leave it for something worse
            s2, d2 = src.reshape(-1, 3), dst.reshape(-1, 3)
            if mode == "diagonal":
                bal.balance_scaling = np.diag(np.sum(s2 * d2, axis=0) / np.sum(s2 * s2, axis=0))
            elif mode == "linear":
                bal.balance_scaling = np.linalg.lstsq(s2, d2, rcond=None)[0]
            else:
                sol = np.linalg.lstsq(np.c_[s2, np.ones(len(s2))], d2, rcond=None)[0]
                bal.balance_scaling = sol[:3].copy()
                bal.balance_translation = sol[3].copy()
        r0 = residual(bal, src, dst)
        bal.find_balance(src, dst)
        r1 = residual(bal, src, dst)
        n = 1
        if not r1 <= r0 + 1e-12 * (1.0 + r0):
            raise Violation(f"residual-increased:{cls}", f"start={case['start']} dst={case['dst']}: "
                            f"residual {r0!r} -> {r1!r}", tags)
        stages = 1
    else:
        # the residual of the *accumulated* balance w.r.t. the targets of the stage being fitted
        bal = cb.AdaptiveBalance()
        modes = case["modes"]
        tags["modes"] = "-".join(modes)
        structs = [eff_struct(m, s) for m, s in zip(modes, _structs_of(case))]
        for k, mode in enumerate(modes):
            dst, _, _ = _targets(rng, src, case["dst"], mode, structs[k])
            r0 = residual(bal, src, dst)
            bal.find_balance(src, dst, mode=mode)
            r1 = residual(bal, src, dst)
            n += 1
            if not r1 <= r0 + 1e-12 * (1.0 + r0):
                tags["stage"] = k + 1
                raise Violation("residual-increased:adaptive", f"stage {k + 1} of {modes} "
                                f"(dst={case['dst']}): residual of the accumulated balance "
                                f"{r0!r} -> {r1!r}", tags)
        stages = len(modes)
    if case["dst"] == "generic":
        structs = []
    return Outcome(nontrivial=case["dst"] != "exact" or case["start"] != "identity" or stages > 1,
                   key=[sw, cls, case["start"], case["dst"], case["mseed"], structs,
                        case["modes"] if cls == "adaptive" else None],
                   labels=_sw_labels(sw) + (cls, f"start-{case['start']}", f"dst-{case['dst']}",
                                            f"stages{stages}") + tuple(sorted({f"map-{s}" for s in structs})),
                   evals=n)


# ---------------------------------------------------------------------------------------
# 2b. a balance object used for a sequence of fits
# ---------------------------------------------------------------------------------------

# ground truth of a step: a generic member of the class, a member of the next smaller class, a pure
# colour shift (affine class; the identity for the others), the identity map (destinations equal to
# the sources), or the map of the previous step once more (the search then starts at the optimum)
STEP_TRUTHS = ("generic", "smaller", "offset", "identity", "repeat")


def gen_refit(tier):
    step = st.fixed_dictionaries({
        "truth": st.sampled_from(["generic", "generic", "smaller", "offset", "identity", "identity", "repeat"]),
        # swatch set of the step: equal numbers = the same swatches again
        "set": st.integers(0, 2),
    })
    return st.fixed_dictionaries({
        "sw": swatch_specs(),
        "cls": st.sampled_from(["white", "color", "color", "affine", "affine"]),
        "form": st.sampled_from(["find", "find", "call"]),
        "steps": st.lists(step, min_size=2, max_size=4),
        "mseed": st.integers(0, 2**20),
    })


def check_refit_sequence(case):
    """One balance object fitted to a sequence of swatch sets / exact maps of its class (re-fitting
    an object is the documented use: the search starts at the current balance): after *every* fit,
    applying the balance to the sources of that fit reproduces its destinations within optimiser
    tolerance - whatever the object was fitted to before and whatever the new ground truth is
    (also the identity map, or the map it already carries) -, maps other colours like the ground
    truth, and the fit does not end above the residual it started from."""
    sw, cls = case["sw"], case["cls"]
    mode = VMODE[cls]
    rng = np.random.default_rng(case["mseed"])
    bal = PLAIN[mode]()
    img = rng.integers(0, 9, size=(3, 4, 3)) / 8.0
    tags = {"cls": cls, "mode": mode, "form": case["form"], "layout": sw["layout"]}
    a, b = np.eye(3), np.zeros(3)
    labels, structs = set(), []
    n = 0
    for k, step in enumerate(case["steps"]):
        src = make_swatches({**sw, "pseed": sw["pseed"] + 7919 * step["set"]})
        truth = step["truth"]
        if truth == "repeat" and k == 0:
            truth = "generic"
        if truth == "smaller":
            a, b = make_map(rng, MODES[max(MODES.index(mode) - 1, 0)])
        elif truth != "repeat":
            a, b = make_map(rng, mode, truth)
            truth = eff_struct(mode, truth)
        dst = ref_apply(src, a, b)
        x0 = stage_params(bal)
        used = "fresh" if k == 0 else ("at-identity" if np.array_equal(x0[0], np.eye(3)) and not np.any(x0[1])
                                       else "used")
        tags.update({"step": k + 1, "truth": truth, "object": used})
        src0, dst0 = src.copy(), dst.copy()
        r0 = residual(bal, src, dst)
        if case["form"] == "call":
            got_img = np.asarray(bal(img, src, dst))
        else:
            bal.find_balance(src, dst)
            got_img = np.asarray(bal.apply_balance(img))
        n += 1
        assert_untouched("source-swatches", src, src0, tags)
        assert_untouched("destination-swatches", dst, dst0, tags)
        r1 = residual(bal, src, dst)
        if not r1 <= r0 + 1e-12 * (1.0 + r0):
            raise Violation(f"refit-residual-increased:{cls}", f"fit {k + 1} of a sequence on one {cls} "
                            f"balance object ({truth} map): residual {r0!r} -> {r1!r}", tags)
        got = np.asarray(bal.apply_balance(src))
        err = float(np.abs(got - dst).max()) if got.shape == dst.shape else float("inf")
        if not err <= TOL_FIT:
            ra, rb = ref_fit(mode, src, dst, x0)
            ref_err = float(np.abs(ref_apply(src, ra, rb) - dst).max())
            if not ref_err <= TOL_FIT:
                return Outcome(False, status="skipped", labels=("optimiser-stalled",))
            raise Violation(f"refit-not-recovered:{mode}",
                            f"fit {k + 1} of a sequence on one {cls} balance object ({used} before this fit) "
                            f"to an exact {truth} map: max |apply(src) - dst| = {err:.3e}, residual "
                            f"{r0:.3e} -> {r1:.3e} (tol {TOL_FIT:.1e}; an independent Powell run started at "
                            f"the same balance reaches {ref_err:.1e})", tags)
        want = ref_apply(img, a, b)
        e2 = float(np.abs(got_img - want).max()) if got_img.shape == want.shape else float("inf")
        if not e2 <= 40 * TOL_FIT:
            raise Violation(f"refit-image-not-mapped:{mode}",
                            f"fit {k + 1} of a sequence on one {cls} balance object ({truth} map): an image "
                            f"passed through the balance differs from the ground truth by {e2:.3e}", tags)
        labels.add(f"{used}-then-{truth}")
        structs.append(truth)
    return Outcome(nontrivial=any(lab.startswith("used-then-") for lab in labels),
                   key=[sw, cls, case["form"], [[s["truth"], s["set"]] for s in case["steps"]], case["mseed"]],
                   labels=_sw_labels(sw) + (cls, f"form-{case['form']}", f"fits{len(case['steps'])}")
                   + tuple(sorted(labels)), evals=n)


# ---------------------------------------------------------------------------------------
# 3. staged_equals_sequential
# ---------------------------------------------------------------------------------------


def gen_staged(tier):
    return st.fixed_dictionaries({
        "sw": swatch_specs(),
        "modes": st.lists(st.sampled_from(MODES), min_size=2, max_size=3),
        "subsets": st.lists(st.sampled_from(["all", "all", "head", "rest"]), min_size=3, max_size=3),
        "dst": st.sampled_from(["exact", "noisy"]),
        # per stage: generic member of the class, pure colour shift (affine stages), identity map
        "structs": st.lists(_STRUCT, min_size=3, max_size=3),
        "mseed": st.integers(0, 2**20),
    })


def _all_orders():
    """Every ordered pair and triple of staged modes (9 + 27)."""
    import itertools

    return [list(m) for n in (2, 3) for m in itertools.product(MODES, repeat=n)]


def enum_staged(tier):
    """Every ordered pair / triple of modes x layout, deterministically (the random sub-check
    does not reach each of the 36 orders in the quick tier)."""
    out = []
    subs = ["all", "head", "rest"]
    for k in range(1 if tier == "quick" else 8):
        for i, modes in enumerate(_all_orders()):
            # quick tier: one layout per order (alternating), thorough: both
            for j, (layout, n) in enumerate((("4x6", 24), ("flat", N_MIN if i % 4 == 1 else 12 + 3 * k))):
                if tier == "quick" and j != i % 2:
                    continue
                out.append({"sw": {"layout": layout, "N": n, "pseed": 2000 + k}, "modes": modes,
                            "subsets": [subs[(i + j + s) % 3] for s in range(3)],
                            "dst": ["exact", "noisy"][(i + j + k) % 2],
                            "structs": [STRUCTS[(i + s) % 3] if (i + k) % 4 == 0 else "generic" for s in range(3)],
                            "mseed": 500 + 7 * k + i})
    return out


def enum_composed(tier):
    """Chains over every ordered pair / triple of modes, deterministically."""
    out = []
    for k in range(1 if tier == "quick" else 8):
        for i, modes in enumerate(_all_orders()):
            layout, n = (("4x6", 24), ("flat", N_MIN if (i + k) % 4 == 1 else 10 + 2 * k))[(i + k) % 2]
            out.append({"scenario": "chain", "sw": {"layout": layout, "N": n, "pseed": 3000 + k},
                        "modes": modes, "second_on": "all", "structs": ["generic"] * 3, "mseed": 900 + 5 * k + i})
    return out


def _usable_subset(sw, which):
    # keep >= 6 swatches in every fitted sub-set
    if sw["layout"] == "flat" and (which == "rest" and sw["N"] < 10 or which == "head"):
        return "all"
    return which


def check_staged_equals_sequential(case):
    sw, modes = case["sw"], case["modes"]
    src = make_swatches(sw)
    rng = np.random.default_rng(case["mseed"])
    x_list = [rng.uniform(0, 1, (7, 3)), rng.integers(0, 9, size=(3, 2, 3)) / 8.0,
              src]
    structs = [eff_struct(m, s) for m, s in zip(modes, _structs_of(case))]
    tags = {"modes": "-".join(modes), "layout": sw["layout"], "nstages": len(modes),
            "maps": "-".join(structs)}
    bal = cb.AdaptiveBalance()
    stages = []
    n = 0
    src0 = src.copy()
    for k, mode in enumerate(modes):
        which = _usable_subset(sw, case["subsets"][k])
        dst, _, _ = _targets(rng, src, case["dst"], mode, structs[k])
        dst0 = dst.copy()
        s_sub, d_sub = subset(src, which), subset(dst, which)
        # the stage balance, obtained independently: the plain class fitted on the swatches as the
        # accumulated balance maps them right now (bit-identical input, Powell is deterministic)
        pre = np.asarray(bal.apply_balance(s_sub))
        plain = PLAIN[mode]()
        plain.find_balance(pre, d_sub)
        stages.append(stage_params(plain))
        bal.find_balance(s_sub, d_sub, mode=mode)
        # the sources are among the probes below and are fitted again in the next stage
        assert_untouched("source-swatches", src, src0, tags)
        assert_untouched("destination-swatches", dst, dst0, tags)
        for x in x_list:
            seq = x
            mag = float(np.abs(x).max())
            for (a, b) in stages:
                seq = ref_apply(seq, a, b)
                mag = 3 * mag * float(np.abs(a).max()) + float(np.abs(b).max())
            got = np.asarray(bal.apply_balance(x))
            n += 1
            tol = 64 * EPS * mag * len(stages)
            err = float(np.abs(got - seq).max())
            if got.shape != seq.shape or not err <= tol:
                tags["stage"] = k + 1
                raise Violation("accumulated-differs-from-sequential",
                                f"after stage {k + 1} of {modes}: accumulated apply_balance differs "
                                f"from applying the stage balances one after the other by {err:.3e} "
                                f"(tol {tol:.1e})", tags)
    commuting = all(m == "diagonal" for m in modes)
    return Outcome(nontrivial=not commuting,
                   key=[sw, modes, structs, case["subsets"], case["dst"], case["mseed"]],
                   labels=_sw_labels(sw) + ("-".join(modes), f"dst-{case['dst']}")
                   + tuple(sorted({f"map-{s}" for s in structs})), evals=n)


# ---------------------------------------------------------------------------------------
# 4. staged_recovers_composed_map
# ---------------------------------------------------------------------------------------


def gen_composed(tier):
    return st.one_of(
        # the colour-correction scenario: white balance on a sub-set, then linear/affine
        st.fixed_dictionaries({
            "scenario": st.just("wb-then-cb"),
            "sw": swatch_specs(),
            "modes": st.sampled_from([["diagonal", "affine"], ["diagonal", "linear"]]),
            "second_on": st.sampled_from(["all", "rest"]),
            "structs": st.lists(_STRUCT, min_size=3, max_size=3),
            "mseed": st.integers(0, 2**20),
        }),
        # general chains: stage k is given the exact image of stage k-1's targets
        st.fixed_dictionaries({
            "scenario": st.just("chain"),
            "sw": swatch_specs(),
            "modes": st.lists(st.sampled_from(MODES), min_size=2, max_size=3),
            "second_on": st.just("all"),
            "structs": st.lists(_STRUCT, min_size=3, max_size=3),
            "mseed": st.integers(0, 2**20),
        }),
    )


def check_staged_recovers_composed_map(case):
    sw, modes = case["sw"], case["modes"]
    src = make_swatches(sw)
    rng = np.random.default_rng(case["mseed"])
    structs = [eff_struct(m, s) for m, s in zip(modes, _structs_of(case))]
    tags = {"modes": "-".join(modes), "layout": sw["layout"], "scenario": case["scenario"],
            "nstages": len(modes), "maps": "-".join(structs)}
    bal = cb.AdaptiveBalance()
    if case["scenario"] == "wb-then-cb":
        d, _ = make_map(rng, "diagonal", structs[0])
        a, b = make_map(rng, modes[1], structs[1])
        dst = ref_apply(ref_apply(src, d, np.zeros(3)), a, b)
        head = "head" if (sw["layout"] == "4x6" or sw["N"] >= 10) else "all"
        second = case["second_on"] if head == "head" else "all"
        stages = [("diagonal", subset(src, head), subset(dst, head)),
                  (modes[1], subset(src, second), subset(dst, second))]
        for mode, s_k, d_k in stages:
            bal.find_balance(s_k, d_k, mode=mode)
        nontrivial = _nonsym(a) or structs[1] == "offset"
    else:
        t = src
        nontrivial = False
        stages = []
        for mode, struct in zip(modes, structs):
            a, b = make_map(rng, mode, struct)
            nontrivial |= _nonsym(a) or struct == "offset"
            t = ref_apply(t, a, b)
            stages.append((mode, src, t))
            bal.find_balance(src, t, mode=mode)
        dst = t
        nontrivial &= not all(m == "diagonal" for m in modes)
    got = np.asarray(bal.apply_balance(src))
    err = float(np.abs(got - dst).max())
    if got.shape != dst.shape or not err <= TOL_STAGED:
        ref_err = float(np.abs(ref_staged(stages, src) - dst).max())
        if not ref_err <= TOL_STAGED:
            return Outcome(False, status="skipped", labels=("optimiser-stalled",))
        raise Violation("staged-not-recovered", f"{case['scenario']} {modes}: accumulated balance leaves "
                        f"max |apply(src) - dst| = {err:.3e} on an exactly representable map (independent "
                        f"Powell fits composed in the row-vector convention reach {ref_err:.1e})", tags)
    return Outcome(nontrivial=nontrivial,
                   key=[sw, modes, structs, case["scenario"], case["second_on"], case["mseed"]],
                   labels=_sw_labels(sw) + (case["scenario"], "-".join(modes))
                   + tuple(sorted({f"map-{s}" for s in structs})))


# ---------------------------------------------------------------------------------------
# 5. row_vector_convention
# ---------------------------------------------------------------------------------------


def gen_rowvec(tier):
    return st.fixed_dictionaries({
        "cls": st.sampled_from(["white", "color", "affine", "adaptive"]),
        "shape": st.one_of(
            st.tuples(st.integers(1, 6), st.integers(1, 6), st.just(3)).map(list),
            st.tuples(st.integers(1, 30), st.just(3)).map(list),
            st.just([3]), st.just([4, 6, 3])),
        # "float32": dyadic values stored as float32 (what img_as_float leaves of a float32 image),
        # "int64": signed integer-typed colours
        "values": st.sampled_from(["dyadic", "float", "uint8", "uint16", "float32", "int64"]),
        # structure of the matrix written into the balance: generic, exactly the identity (with a
        # generic translation where the class has one), or the identity up to dyadic perturbations
        # of 2^-30 (products with the dyadic payloads stay exact in double precision)
        "matrix": st.sampled_from(["generic", "generic", "identity", "near-identity"]),
        "pseed": st.integers(0, 2**20),
    })


def check_row_vector(case):
    rng = np.random.default_rng(case["pseed"])
    cls = case["cls"]
    bal = {"white": cb.WhiteBalance, "color": cb.ColorBalance, "affine": cb.AffineBalance,
           "adaptive": cb.AdaptiveBalance}[cls]()
    dy = case["values"] in ("dyadic", "uint8", "uint16", "float32", "int64")
    if case["values"] in ("float32", "int64"):
        x = rng.integers(-16, 17, size=case["shape"])
        x = x.astype(np.int64) if case["values"] == "int64" else (x / 8.0).astype(np.float32)
        a = rng.integers(-16, 17, size=(3, 3)) / 8.0
        b = rng.integers(-16, 17, size=3) / 8.0
    elif case["values"] in ("uint8", "uint16"):
        # integer-typed swatches / images (as read from file): the balance acts on their values
        x = rng.integers(0, 256 if case["values"] == "uint8" else 65536, size=case["shape"]).astype(case["values"])
        a = rng.integers(-16, 17, size=(3, 3)) / 8.0
        b = rng.integers(-16, 17, size=3) / 8.0
    elif dy:
        x = rng.integers(-16, 17, size=case["shape"]) / 8.0
        a = rng.integers(-16, 17, size=(3, 3)) / 8.0
        b = rng.integers(-16, 17, size=3) / 8.0
    else:
        x = rng.uniform(0, 1, case["shape"])
        a = np.eye(3) + 0.3 * rng.uniform(-1, 1, (3, 3))
        b = rng.uniform(-0.2, 0.2, 3)
    if case.get("matrix", "generic") == "identity":
        a = np.eye(3)
    elif case.get("matrix", "generic") == "near-identity":
        a = np.eye(3) + rng.integers(-4, 5, size=(3, 3)) * 2.0 ** -30
    if cls == "white":
        a = np.diag(np.diag(a))
    if cls in ("white", "color"):
        b = np.zeros(3)
    bal.balance_scaling = a.copy()
    if cls in ("affine", "adaptive"):
        bal.balance_translation = b.copy()
    x0 = x.copy()
    got = np.asarray(bal.apply_balance(x))
    want = ref_apply(x0.astype(float), a, b)
    tags = {"cls": cls, "ndim": len(case["shape"]), "values": case["values"], "matrix": case.get("matrix", "generic")}
    assert_untouched("image", x, x0, tags)
    if got.shape != want.shape:
        raise Violation("shape", f"apply_balance: {x.shape} -> {got.shape}", tags)
    tol = 0.0 if dy else 16 * EPS * (3 * np.abs(a).max() * np.abs(x).max() + np.abs(b).max())
    err = float(np.abs(got - want).max())
    if not err <= tol:
        raise Violation("not-row-vector", f"{cls}.apply_balance(img) != img @ A + b "
                        f"(max diff {err:.3e}, shape {x.shape})", tags)
    if not np.array_equal(np.asarray(bal.balance_scaling), a):
        raise Violation("apply-mutates-balance", "apply_balance changed balance_scaling", tags)
    shifted = cls in ("affine", "adaptive") and bool(np.any(b != 0))
    return Outcome(nontrivial=cls != "white" and _nonsym(a) or case.get("matrix", "generic") != "generic" and shifted,
                   key=[case["cls"], case["shape"], case["values"], case.get("matrix", "generic"), case["pseed"]],
                   labels=(cls, f"ndim{len(case['shape'])}", case["values"], f"matrix-{case['matrix']}"))


_RULE = ("Hypothesis draws the swatch layout (4x6x3 chart or flat Nx3, N 4..40), the balance class / "
         "ordered list of 1-3 staged modes, the start state and integer seeds (flat sets from N = 4, the "
         "smallest set determining a map of every class, upwards); swatches = offset + "
         "orthonormal frame x singular values in [0.3,1] (cond <= ~20), ground-truth maps near the "
         "identity (D = I +- 0.3, A = I + 0.15 U(-1,1), |b| <= 0.1) including the structured members "
         "of the classes (pure colour shift A = I, b != 0; the identity map; matrices within 2^-28 of "
         "the identity for the application law); swatches handed to the fits as float64, float32 (as "
         "ColorCorrection passes them), on the 8-bit scale as uint8 / float64 and on the 16-bit scale as "
         "uint16, fitted on a fresh object or (plain classes, callable form) on one fitted before / "
         "parametrised by hand; AdaptiveBalance also through its default mode and its callable form; "
         "every ordered pair / triple of staged modes is enumerated once per tier and layout; "
         "ColorCorrection with every subset of its balancing options left to their defaults, on uint8 / "
         "uint16 / float32 / float64 photographs; one ColorCorrection object applied to sequences of "
         "2-3 checker images (same / drift below an 8-bit step / illumination change / unrelated); "
         "one plain balance object fitted 2-4 times in a row (same / other swatches; generic, smaller-class, "
         "pure-shift, identity or repeated ground truth), every fit checked; "
         "non-trivial = a non-symmetric "
         "ground-truth / stage matrix (|A - A^T| > 0.05), a non-commuting stage list, or a fit not "
         "started from the identity; distinct = (swatch spec, class / modes, seeds)")

# ---------------------------------------------------------------------------------------
# 5b. reset() gives back a fresh balance
# ---------------------------------------------------------------------------------------


def gen_reset(tier):
    modes = st.sampled_from(["diagonal", "linear", "affine"])
    return st.fixed_dictionaries({
        "first": st.lists(modes, min_size=1, max_size=2), "second": st.lists(modes, min_size=1, max_size=2),
        "pseed": st.integers(0, 2**20)})


def check_reset(case):
    """AdaptiveBalance: staged fits, reset(), staged fits again - after reset() the object is the
    identity and the second round of fits equals the same fits on a fresh object."""
    rng = np.random.default_rng(case["pseed"])
    src = rng.uniform(0.1, 0.9, size=(12, 3))
    A1 = np.eye(3) + 0.15 * rng.uniform(-1, 1, (3, 3))
    b1 = 0.08 * rng.uniform(-1, 1, 3)
    dst1 = src @ A1 + b1
    A2 = np.eye(3) + 0.15 * rng.uniform(-1, 1, (3, 3))
    dst2 = src @ A2 + (0.05 * rng.uniform(-1, 1, 3) if "affine" in case["second"] else 0.0)
    t = {"first": "-".join(case["first"]), "second": "-".join(case["second"])}
    bal = cb.AdaptiveBalance()
    for m in case["first"]:
        bal.find_balance(src, dst1, mode=m)
    bal.reset()
    x = rng.uniform(0, 1, size=(7, 3))
    if not np.array_equal(np.asarray(bal.apply_balance(x)), x):
        raise Violation("reset-not-identity", f"after fits {case['first']} and reset() the balance maps x to "
                        f"x + {np.abs(np.asarray(bal.apply_balance(x)) - x).max():.3e}", t)
    fresh = cb.AdaptiveBalance()
    for m in case["second"]:
        bal.find_balance(src, dst2, mode=m)
        fresh.find_balance(src, dst2, mode=m)
    got, want = np.asarray(bal.apply_balance(x)), np.asarray(fresh.apply_balance(x))
    if not np.array_equal(got, want):
        raise Violation("reset-then-fit", f"fits {case['second']} after reset() differ from the same fits on a "
                        f"fresh object (max {np.abs(got - want).max():.3e})", t)
    return Outcome("affine" in case["first"], case, (t["first"], t["second"]))


# ---------------------------------------------------------------------------------------
# 6. use inside the colour correction: white balance, then colour balance of the chosen class
# ---------------------------------------------------------------------------------------


CC_OPTIONS = ("whitebalancing", "colorbalancing", "balancing")
# documented defaults of the options (config docstring: white balancing "default is True"; the
# colour-balance stage is affine and the balance classes of this module are used unless asked otherwise)
CC_DEFAULTS = {"whitebalancing": True, "colorbalancing": "affine", "balancing": "darsia"}


def gen_colorcorrection(tier):
    @st.composite
    def strat(draw):
        return {"cseed": draw(st.integers(0, 2**16)), "shape": [draw(st.sampled_from([200, 240, 300])),
                                                                 draw(st.sampled_from([300, 330, 420]))],
                "whitebalancing": draw(st.booleans()),
                "colorbalancing": draw(st.sampled_from(["affine", "linear"])),
                "truth": draw(st.sampled_from(["affine", "affine", "linear"])),
                # options left out of the config (their defaults apply)
                "omit": draw(st.one_of(st.just([]), st.lists(st.sampled_from(CC_OPTIONS), unique=True,
                                                             min_size=1, max_size=3).map(sorted))),
                # storage of the photograph (all documented input types of correct_array)
                "dtype": draw(st.sampled_from(["uint8", "uint8", "uint16", "float32", "float64"])),
                "mseed": draw(st.integers(0, 2**16))}

    return strat()


def check_colorcorrection_stages(case):
    """ColorCorrection (darsia balancing) on a synthetic checker image equals applying the stage
    balances one after the other: WhiteBalance fitted on the grey row (if enabled), then the plain
    ColorBalance ("linear") or AffineBalance ("affine") fitted on the pre-balanced colour rows.

    Two oracles: (i) the stages fitted on the *known* swatch colours (independent of the swatch
    extraction, which is exact only to ~2e-5, amplified by the fits -> loose tolerance; with an
    affine last stage most of what an earlier stage does is absorbed at that level); (ii) the
    stages fitted on the swatches as extracted from this very image (public CustomColorChecker, same
    k-means seed): Powell is deterministic, so only the rounding of the composition and the final
    float32 cast remain -> a few float32 ulps."""
    import cv2
    import skimage

    import darsia
    from darsia.corrections.color.colorcorrection import CustomColorChecker
    from vf.props import c10

    h, w = case["shape"]
    rng = np.random.default_rng(case["mseed"])
    omit = case.get("omit", [])
    dtype = case.get("dtype", "uint8")
    opts = {"whitebalancing": case["whitebalancing"], "colorbalancing": case["colorbalancing"],
            "balancing": "darsia"}
    eff = {k: (CC_DEFAULTS[k] if k in omit else v) for k, v in opts.items()}
    ref = rng.integers(40, 216, size=(4, 6, 3)).astype(float) / 255.0
    # observed colours = inverse-ish ground-truth map of the reference, so the fitted map is non-trivial
    A = np.eye(3) + 0.12 * rng.uniform(-1, 1, size=(3, 3))
    b = 0.06 * rng.uniform(-1, 1, size=3) if case["truth"] == "affine" else np.zeros(3)
    obs = np.clip((ref - b) @ np.linalg.inv(A), 0.05, 0.95)
    colors = np.round(obs * 255).astype(np.uint8)
    img = c10._checker_image(h, w, colors, 0)
    if dtype == "uint16":
        img = img.astype(np.uint16) * 257
    elif dtype != "uint8":
        img = (img / 255.0).astype(dtype)
    cfg = {"roi": c10._color_roi(h, w, 0), "active": True, "clip": False}
    cfg.update({k: v for k, v in opts.items() if k not in omit})
    ref32 = ref.astype(np.float32)
    corr = darsia.ColorCorrection(base=c10._custom_checker(ref32), config=cfg)
    img0 = img.copy()
    cv2.setRNGSeed(0)
    got = np.asarray(corr.correct_array(img), dtype=float)
    t = {"wb": eff["whitebalancing"], "cb": eff["colorbalancing"], "truth": case["truth"],
         "omit": "+".join(omit), "dtype": dtype}
    labels = (f"wb-{eff['whitebalancing']}", f"cb-{eff['colorbalancing']}", f"truth-{case['truth']}",
              f"img-{dtype}") + (tuple(f"omit-{k}" for k in omit) or ("all-options-given",))
    xf = skimage.img_as_float(img0)

    def sequential(sw, refsw):
        x, cur = xf, sw
        if eff["whitebalancing"]:
            wb = cb.WhiteBalance()
            wb.find_balance(cur[-1], refsw[-1])
            cur = wb.apply_balance(cur)
            x = wb.apply_balance(x)
        stage = cb.AffineBalance() if eff["colorbalancing"] == "affine" else cb.ColorBalance()
        stage.find_balance(cur[:-1], refsw[:-1])
        return np.asarray(stage.apply_balance(x), dtype=float), type(stage).__name__

    what = (f"ColorCorrection(whitebalancing={eff['whitebalancing']}, colorbalancing="
            f"{eff['colorbalancing']!r}{', defaults for ' + '/'.join(omit) if omit else ''}) on a {dtype} image")
    # (i) sequential reference on the known swatch colours
    want, name = sequential(colors.astype(float) / 255.0, ref)
    err = float(np.abs(got - want).max()) if got.shape == want.shape else float("inf")
    # swatch extraction (k-means on uniform patches) is exact to ~2e-5; the Powell fits amplify that
    if not err <= 3e-3:
        raise Violation(f"colorcorrection-not-staged:{eff['colorbalancing']}",
                        f"{what} differs from white balance then {name} applied in sequence by {err:.2e}", t)
    # (ii) sequential reference on the swatches extracted from this image (the ROI is the whole image)
    cv2.setRNGSeed(0)
    sw32 = CustomColorChecker(image=xf).swatches_rgb
    want2, _ = sequential(sw32, ref32)
    want2 = want2.astype(np.float32).astype(float)
    tol = 4 * 2.0 ** -23 * max(1.0, float(np.abs(want2).max()))
    err2 = float(np.abs(got - want2).max())
    if not err2 <= tol:
        raise Violation(f"colorcorrection-stage-differs:{eff['colorbalancing']}",
                        f"{what} differs from the stage balances (white balance on the grey row, then "
                        f"{name} on the colour rows, fitted to the swatches of this image) applied in "
                        f"sequence by {err2:.2e} (tol {tol:.1e})", t)
    return Outcome(True, case, labels, evals=2)


# ---------------------------------------------------------------------------------------
# 7. one colour correction object applied to a sequence of images: every image gets the balance
#    fitted to *its own* swatches
# ---------------------------------------------------------------------------------------

RELATIONS = ["same", "tiny", "tiny", "illumination", "independent"]


def gen_cc_sequence(tier):
    return st.fixed_dictionaries({
        "shape": st.tuples(st.sampled_from([200, 240, 300]), st.sampled_from([300, 330, 420])).map(list),
        "dtype": st.sampled_from(["float64", "float32", "uint16"]),
        "whitebalancing": st.booleans(),
        "colorbalancing": st.sampled_from(["affine", "linear"]),
        # how image k+1 relates to image k
        "relations": st.lists(st.sampled_from(RELATIONS), min_size=1, max_size=2),
        "mseed": st.integers(0, 2**16),
    })


def _float_checker_image(h, w, colors, dtype):
    """Like c10._checker_image (brown swatch upper left) but with real-valued swatch colours in
    [0, 1], stored as float64 / float32 / uint16."""
    import cv2

    from vf.props import c10

    fh = int(17.8 / 27.3 * 500) + 1
    frame = np.full((max(fh, 320), 500, 3), 20.0 / 255.0)
    for i, r in enumerate(c10._SW_ROW):
        for j, c in enumerate(c10._SW_COL):
            frame[max(0, r - 10):r + 60, max(0, c - 10):c + 60] = colors[i, j]
    up = cv2.resize(frame[:fh], (w, h), interpolation=cv2.INTER_NEAREST)
    if dtype == "uint16":
        return np.round(up * 65535.0).astype(np.uint16)
    return up.astype(dtype)


def _bin_centred(colors):
    """Colours moved to the centres of their 8-bit bins (so that perturbations below 0.4/255 do
    not change any 8-bit representation of them)."""
    return (np.floor(np.clip(colors, 0.1, 0.9) * 255.0) + 0.5) / 255.0


def check_colorcorrection_sequence(case):
    """ColorCorrection (darsia balancing) is a function of the image it is given: applied to a
    sequence of images (same checker again / colours drifting by less than an 8-bit step / a
    change of illumination / unrelated colours) one object returns for every image exactly what
    a fresh object returns for it - i.e. (by colorcorrection_is_staged_composition) the white
    balance then colour balance fitted to the swatches of *that* image.  The k-means RNG of cv2
    is reset before every call, which makes correct_array deterministic."""
    import cv2

    import darsia
    from vf.props import c10

    h, w = case["shape"]
    rng = np.random.default_rng(case["mseed"])
    ref = rng.integers(40, 216, size=(4, 6, 3)).astype(float) / 255.0
    A = np.eye(3) + 0.12 * rng.uniform(-1, 1, size=(3, 3))
    b = 0.06 * rng.uniform(-1, 1, size=3)
    base = _bin_centred((ref - b) @ np.linalg.inv(A))
    cfg = {"roi": c10._color_roi(h, w, 0), "active": True, "balancing": "darsia",
           "colorbalancing": case["colorbalancing"], "whitebalancing": case["whitebalancing"], "clip": False}

    def new_correction():
        return darsia.ColorCorrection(base=c10._custom_checker(ref.astype(np.float32)), config=cfg)

    def run(corr, img):
        cv2.setRNGSeed(0)
        return np.asarray(corr.correct_array(img.copy()))

    corr = new_correction()
    colors = base
    run(corr, _float_checker_image(h, w, colors, case["dtype"]))
    t = {"wb": case["whitebalancing"], "cb": case["colorbalancing"], "dtype": case["dtype"]}
    n = 0
    for k, rel in enumerate(case["relations"]):
        if rel == "tiny":
            colors = base + rng.uniform(-0.4, 0.4, size=base.shape) / 255.0
        elif rel == "illumination":
            base = _bin_centred(base * (1.0 + 0.08 * rng.uniform(-1, 1, size=3)))
            colors = base
        elif rel == "independent":
            base = _bin_centred(rng.uniform(0.15, 0.85, size=base.shape))
            colors = base
        img = _float_checker_image(h, w, colors, case["dtype"])
        got = run(corr, img)
        want = run(new_correction(), img)
        n += 1
        if got.shape != want.shape or not np.array_equal(got, want):
            err = float(np.abs(got.astype(float) - want.astype(float)).max()) if got.shape == want.shape else float("inf")
            t["relation"], t["step"] = rel, k + 2
            raise Violation(f"colorcorrection-depends-on-history:{rel}",
                            f"image {k + 2} of a sequence ({rel} w.r.t. the previous one): the correction "
                            f"object returns something else than a fresh object fitted to this image "
                            f"(max diff {err:.2e}) - the balance is not the one fitted to its swatches", t)
    return Outcome(any(r != "same" for r in case["relations"]), case,
                   tuple(sorted({f"next-{r}" for r in case["relations"]}))
                   + (case["dtype"], f"wb-{case['whitebalancing']}", f"cb-{case['colorbalancing']}"),
                   evals=n)


PROP = Prop(
    pid="C12",
    rule=_RULE,
    assumptions=[
        "exact-map recovery asserted to 1e-6 max-abs (single fit) / 2e-6 (staged); Powell at tol=1e-6 "
        "reaches <= 2e-10 / 1e-8 on these problems except for rare stalls (~1 in 30 000 fits, up to "
        "1e-3): a miss is reported only if an independent run of the documented optimiser (scipy "
        "Powell, tol 1e-6, maxiter 1000, identity start, composed in the row-vector convention) on the "
        "same problem reaches the tolerance, otherwise the case is counted as skipped",
        "the stage balances of AdaptiveBalance are re-derived by fitting the plain balance class on the "
        "bit-identical pre-balanced swatches (Powell is deterministic)",
        "residual comparison allows 1e-12 relative slack; 'optimal' start = closed-form least-squares "
        "optimum of the class written into balance_scaling / balance_translation",
        "ColorCorrection.correct_array is treated as a pure function of (image, config, reference "
        "swatches) once cv2's k-means RNG is reset before the call: a used object must return bit-"
        "identical output to a fresh object on the same image",
        "targets of a bigger class than the fitted one: only the class structure is asserted (white "
        "balance stays diagonal, diagonal / linear balances map black to black)",
        "the balances are scale-free least-squares fits: on swatches of the 8 / 16 bit scale (integer-typed "
        "or real) the recovery tolerance is 1e-6 x scale (measured <= 2e-11 x scale), for float32 targets "
        "plus half a float32 ulp of the targets; a miss from a non-identity start is reported only if the "
        "reference Powell run started at the same balance reaches the tolerance",
        "ColorCorrection is compared (a) with the stage balances fitted to the known swatch colours (3e-3: "
        "swatch extraction error amplified by the fits) and (b) with the stage balances fitted to the "
        "swatches extracted from the same image by the public CustomColorChecker under the same k-means "
        "seed (4 float32 ulps: Powell is deterministic, only the rounding of the composition and the "
        "final float32 cast remain); omitted options take whitebalancing=True (documented), "
        "colorbalancing='affine', balancing='darsia' (attribute docstrings / code defaults)",
        "a re-used balance object: every fit of a sequence must reproduce its exactly representable "
        "destinations to 1e-6 (a miss is reported only if the reference Powell run started at the balance "
        "the object carried before that fit reaches the tolerance) and must not end above its start residual",
        "find_balance / apply_balance / the callable form do not modify the arrays they are given "
        "(ColorCorrection hands them views of its stored reference swatches and the caller's image)",
    ],
    subs=[
        Sub("recovers_exact_map", check_recovers_exact_map, gen=gen_exact,
            n={"quick": 330, "thorough": 12000}, shards={"quick": 6, "thorough": 16}),
        Sub("recovers_exact_map_each_class", check_recovers_exact_map, enum=enum_exact,
            shards={"quick": 4, "thorough": 16}),
        Sub("residual_never_increases", check_residual, gen=gen_residual,
            n={"quick": 320, "thorough": 8000}, shards={"quick": 4, "thorough": 16}),
        Sub("refit_sequence_recovers_each_map", check_refit_sequence, gen=gen_refit,
            n={"quick": 120, "thorough": 4000}, shards={"quick": 4, "thorough": 16}),
        Sub("staged_equals_sequential", check_staged_equals_sequential, gen=gen_staged,
            n={"quick": 120, "thorough": 4000}, shards={"quick": 4, "thorough": 16}),
        Sub("staged_equals_sequential_each_order", check_staged_equals_sequential, enum=enum_staged,
            shards={"quick": 3, "thorough": 16}),
        Sub("staged_recovers_composed_map", check_staged_recovers_composed_map, gen=gen_composed,
            n={"quick": 180, "thorough": 6000}, shards={"quick": 3, "thorough": 16}),
        Sub("staged_recovers_composed_map_each_order", check_staged_recovers_composed_map, enum=enum_composed,
            shards={"quick": 2, "thorough": 16}),
        Sub("reset_gives_fresh_balance", check_reset, gen=gen_reset,
            n={"quick": 60, "thorough": 1500}, shards={"quick": 4, "thorough": 16}),
        Sub("colorcorrection_is_staged_composition", check_colorcorrection_stages, gen=gen_colorcorrection,
            n={"quick": 48, "thorough": 1200}, shards={"quick": 4, "thorough": 16}),
        Sub("colorcorrection_sequence_each_image_own_balance", check_colorcorrection_sequence,
            gen=gen_cc_sequence, n={"quick": 24, "thorough": 600}, shards={"quick": 4, "thorough": 16}),
        Sub("row_vector_convention", check_row_vector, gen=gen_rowvec,
            n={"quick": 400, "thorough": 8000}, shards={"quick": 1, "thorough": 4}),
    ],
)
