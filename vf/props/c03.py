"""C03 - geometric integration is the weighted voxel sum at any resolution and history.

Case layout (all JSON-able)::

    geo   = {cls, dim, base, m, vox, vk, ctor, kwcall, weights:[{kind, val, seed, const, sform}]}
    data  = {payload, ncomp, series, nt, dtype}
    calls = [{r, pseed, form[, data]}]             (history sub-check; data = kind of this call)
    pool, builds                                   (shared-weights sub-check, see section 7)

Data may be stored with an integer type (uint8 / uint16 photographs, counts): integers of
that type; the image handed to normalize() has its own storage type (``idtype``).

The native grid of the geometry has ``base[i] * m[i]`` voxels along axis i; a call at
resolution ``r`` supplies data on ``base[i] * r[i]`` voxels.  A field is *defined* on the
coarsest common grid ``base[i] * g[i]`` with ``g = gcd(m, every r)`` and prolonged with
``np.repeat``, so that exactly the same piecewise-constant field exists at every resolution
that occurs in the case.  Only the regimes the code documents as conservative are generated:
every axis not finer than native (any ratio), or every axis an integer multiple of native.
Per-axis *mixed* factors (one axis refined, another coarsened) are generated where the
rescaling is exact whatever the interpolation: no array weight (the scalar voxel volume is
rescaled by the ratio of voxel counts) or, in 2-D, spatially constant array weights.

Constructor call forms: positional weights with ``dimensions`` or ``voxel_size`` (unit tests),
and the form of every caller in the library and the examples - ``**image.shape_metadata()``
(space_dim, num_voxels, dimensions *and* voxel_size of an Image) with the weights by keyword
(``ExtrudedGeometry(expansion=depth, **shape_meta)``,
``ExtrudedPorousGeometry(depth=..., porosity=..., **shape_meta)``).  Scalar weights are python
floats, python ints (depth 1 or 2) or numpy floats.  ``dimensions`` may come with a voxel size
that does not belong to it (ctor ``meta_other``: the shape metadata of an image of the same
domain on another voxelization with ``num_voxels`` replaced; ctor ``both``: an explicit foreign
``voxel_size``): dimensions overrule the voxel size (documented), the voxels are
dimensions / num_voxels.

normalize_history (section 8): Image objects of a pool are re-used over several normalize()
calls on one geometry, their contents replaced / rescaled in place between the calls.
"""
import math

import numpy as np
from hypothesis import strategies as st

import darsia
from vf import gens
from vf.runner import Outcome, Prop, Sub, Violation

CLASSES = ("Geometry", "WeightedGeometry", "ExtrudedGeometry", "PorousGeometry",
           "ExtrudedPorousGeometry")
NWEIGHTS = {"Geometry": 0, "WeightedGeometry": 1, "ExtrudedGeometry": 1, "PorousGeometry": 1,
            "ExtrudedPorousGeometry": 2}
WEIGHT_NAMES = {"WeightedGeometry": ["weight"], "ExtrudedGeometry": ["expansion"],
                "PorousGeometry": ["porosity"], "ExtrudedPorousGeometry": ["porosity", "depth"]}
MAXN = {1: 16, 2: 8, 3: 8}  # native extent
KFINE = {1: 4, 2: 4, 3: 2}  # largest refinement factor

TOL64 = 1e-13  # relative to the sum of magnitudes (plain float64 multiply-and-sum)
TOL_CV = 1e-5  # float32 payloads and the cv2 area-resize of an array weight (float coefficients)


# ---------------------------------------------------------------------------------------
# strategies
# ---------------------------------------------------------------------------------------


@st.composite
def geo_specs(draw, dims=(1, 2, 3), classes=CLASSES):
    dim = draw(st.sampled_from(list(dims)))
    cls = draw(st.sampled_from(list(classes)))
    c = draw(st.sampled_from([1, 1, 2, 2, 3, 3, 4, 4]))
    m = [c * (draw(st.sampled_from([1, 1, 2])) if c <= 2 else 1) for _ in range(dim)]
    base = [draw(st.integers(1, MAXN[dim] // mi)) for mi in m]
    vk = draw(st.sampled_from(["pow2", "generic", "unit"]))
    vox = draw(gens.voxel_sizes(dim, vk))
    weights = []
    for _ in range(NWEIGHTS[cls]):
        kinds = ["scalar", "scalar", "array"]
        if cls == "ExtrudedPorousGeometry":
            kinds.append("image")
        weights.append({
            "kind": draw(st.sampled_from(kinds)),
            "val": draw(st.integers(1, 16)) / 8.0,
            "seed": draw(st.integers(0, 2**16)),
            "const": draw(st.integers(0, 7)) == 0,
            # how a scalar weight is written: 0.75, 2 (int), np.float64(0.75)
            "sform": draw(st.sampled_from(["float", "float", "int", "npfloat"])),
        })
    ctor = draw(st.sampled_from(["dimensions", "dimensions", "voxel_size", "voxel_size",
                                 "shape_meta", "shape_meta", "meta_other", "both"]))
    geo = {"cls": cls, "dim": dim, "base": base, "m": m, "vox": vox, "vk": vk,
           "ctor": ctor, "weights": weights,
           # weights by keyword (always with shape metadata: the call form of the callers)
           "kwcall": ctor in ("shape_meta", "meta_other") or draw(st.integers(0, 3)) == 0,
           "nv_extra": draw(st.sampled_from([[], [], [], [3], [2, 3], [1]]))}
    if ctor == "meta_other":
        # the shape metadata of an image of the same domain on another voxelization
        # (at least one axis differs), num_voxels replaced by the geometry's own
        nat = [b * mi for b, mi in zip(base, m)]
        other = [draw(st.integers(1, MAXN[dim])) for _ in range(dim)]
        if other == nat:
            j = draw(st.integers(0, dim - 1))
            other[j] = nat[j] + 1 if nat[j] < MAXN[dim] else nat[j] - 1
        geo["other"] = other
    elif ctor == "both":
        # dimensions together with a voxel size that does not belong to them (a default
        # such as [1, 1, 1], the voxel size of another voxelization, ...)
        geo["vox_given"] = draw(st.one_of(
            st.just([1.0] * dim), gens.voxel_sizes(dim, "generic"), gens.voxel_sizes(dim, "pow2")))
    return geo


@st.composite
def data_specs(draw, dtypes=("float64",)):
    payload = draw(st.sampled_from(["scalar", "scalar", "vector"]))
    series = draw(st.sampled_from([False, False, True]))
    return {
        "payload": payload,
        "ncomp": draw(st.integers(1, 3)) if payload == "vector" else 0,
        "series": series,
        "nt": draw(st.integers(1, 3)) if series else 0,
        "dtype": draw(st.sampled_from(list(dtypes))),
    }


def _divisors(n):
    return [k for k in range(1, n + 1) if n % k == 0]


@st.composite
def resolutions(draw, geo, kinds=("native", "coarser", "other", "finer")):
    """One resolution multiplier ``r`` (per axis) in a conservative regime."""
    dim, m = geo["dim"], geo["m"]
    common = [k for k in (2, 3, 4) if all(mi % k == 0 for mi in m)]
    avail = []
    for k in kinds:
        if k == "coarser" and not common:
            continue
        if k == "other" and max(m) == 1:
            continue
        if k == "mixed" and not (dim >= 2 and max(m) > 1 and _mixed_ok(geo)):
            continue
        avail.append(k)
    if not avail:
        avail = ["native"]
    kind = draw(st.sampled_from(avail))
    if kind == "native":
        return list(m)
    if kind == "coarser":
        k = draw(st.sampled_from(common))
        return [mi // k for mi in m]
    if kind == "other":
        # per-axis, not finer than native: integer divisors or any smaller extent
        if draw(st.integers(0, 2)) == 0:
            r = [mi // draw(st.sampled_from(_divisors(mi))) for mi in m]
        else:
            r = [draw(st.integers(1, mi)) for mi in m]
        if r == list(m):  # make it different from native by construction
            j = max(range(dim), key=lambda i: m[i])
            r[j] = draw(st.integers(1, m[j] - 1))
        return r
    kmax = KFINE[dim]
    if kind == "mixed":
        # one axis coarsened (any smaller extent), another refined by an integer factor, the
        # remaining one anything; every second case balanced (same number of voxels as native)
        j = draw(st.sampled_from([i for i in range(dim) if m[i] > 1]))
        i = draw(st.sampled_from([a for a in range(dim) if a != j]))
        r = list(m)
        r[j] = draw(st.integers(1, m[j] - 1))
        r[i] = m[i] * draw(st.integers(2, kmax))
        if draw(st.booleans()):
            bal = [d for d in _divisors(m[j]) if 2 <= d <= kmax]
            if bal:
                d = draw(st.sampled_from(bal))
                r[j], r[i] = m[j] // d, m[i] * d
        for a in range(dim):
            if a not in (i, j):
                r[a] = draw(st.sampled_from([m[a], m[a] * 2] + list(range(1, m[a]))))
        return r
    if draw(st.booleans()):
        k = draw(st.integers(2, kmax))
        return [mi * k for mi in m]
    ks = [draw(st.integers(1, kmax)) for _ in m]
    if max(ks) == 1:
        ks[draw(st.integers(0, dim - 1))] = 2
    return [mi * k for mi, k in zip(m, ks)]


def _res_kinds(geo, resized_weight=1):
    """Array weights outside 2-D document a ValueError for resized data: keep that class small."""
    if _has_array_weight(geo) and geo["dim"] != 2:
        return ("native",) * 12 + ("finer", "coarser", "other")
    return ("native",) * 2 + ("coarser", "other", "finer") * resized_weight + ("mixed",)


def _mixed_ok(geo):
    """Refining one axis and coarsening another is exact for a scalar voxel volume (ratio of
    voxel counts) and for a spatially constant one (any interpolation reproduces a constant);
    cv2's area resize is not conservative there for a varying volume: not generated."""
    return all(w["kind"] == "scalar" or (w["const"] and geo["dim"] == 2)
               for w in geo["weights"])


# ---------------------------------------------------------------------------------------
# builders and the reference model
# ---------------------------------------------------------------------------------------


def _native(geo):
    return [b * mi for b, mi in zip(geo["base"], geo["m"])]


def _has_array_weight(geo):
    return any(w["kind"] != "scalar" for w in geo["weights"])


def _wclass(geo):
    if not geo["weights"]:
        return "none"
    return "array" if _has_array_weight(geo) else "scalar"


def _weight_array(geo, w):
    """Dyadic positive weight on the native grid (k/8, k = 1..16); with an integer ``wdtype``
    (mask / count maps) integers 0..3 (1..3 if constant) of that dtype."""
    shape = _native(geo)
    wdt = np.dtype(w.get("wdtype", "float64"))
    if wdt.kind in "iu" and w["kind"] != "scalar":
        if w["const"]:
            return np.full(shape, 1 + int(round(w["val"] * 8)) % 3, dtype=wdt)
        return np.random.default_rng(w["seed"]).integers(0, 4, size=shape).astype(wdt)
    if w["kind"] == "scalar":
        return np.full(shape, float(_scalar_weight(w)))
    if w["const"]:
        return np.full(shape, w["val"])
    return np.random.default_rng(w["seed"]).integers(1, 17, size=shape) / 8.0


def _scalar_weight(w):
    """A scalar weight as the user writes it: python float, python int (1 or 2), numpy float."""
    sform = w.get("sform", "float")
    if sform == "int":
        return max(1, int(round(w["val"])))
    if sform == "npfloat":
        return np.float64(w["val"])
    return float(w["val"])


def _dimensions(geo):
    return [n * h for n, h in zip(_native(geo), geo["vox"])]


def _weight_object(geo, w):
    """The object a user hands to the constructor for one weight: float, ndarray or Image."""
    if w["kind"] == "scalar":
        return _scalar_weight(w)
    if w["kind"] == "array":
        return _weight_array(geo, w)
    return darsia.Image(_weight_array(geo, w), space_dim=geo["dim"], dimensions=_dimensions(geo))


def build_geometry(geo, args=None):
    """``args``: ready-made weight objects (shared between several geometries) or None."""
    shape = _native(geo)
    if geo["ctor"] == "shape_meta":
        # the form of the callers: all shape metadata of an image on the native grid
        # (space_dim, num_voxels, dimensions and the matching voxel_size)
        kw = darsia.Image(np.zeros(shape), space_dim=geo["dim"],
                          dimensions=_dimensions(geo)).shape_metadata()
    elif geo["ctor"] == "meta_other":
        # the shape metadata of an image of the same domain with another voxelization,
        # re-used for this one: dimensions (documented to overrule voxel_size) and
        # num_voxels define the voxels, the voxel size of the other image comes along
        kw = dict(darsia.Image(np.zeros(geo["other"]), space_dim=geo["dim"],
                               dimensions=_dimensions(geo)).shape_metadata())
        kw["num_voxels"] = list(shape)
    elif geo["ctor"] == "both":
        # dimensions overrule the voxel size given along with them
        kw = {"space_dim": geo["dim"],
              "num_voxels": list(shape) + list(geo.get("nv_extra", [])),
              "dimensions": _dimensions(geo), "voxel_size": list(geo["vox_given"])}
    else:
        # the constructor truncates num_voxels to space_dim entries so that a full array
        # shape (with time / component axes) may be passed
        kw = {"space_dim": geo["dim"],
              "num_voxels": list(shape) + list(geo.get("nv_extra", []))}
        if geo["ctor"] == "dimensions":
            kw["dimensions"] = _dimensions(geo)
        else:
            kw["voxel_size"] = list(geo["vox"])
    if args is None:
        args = [_weight_object(geo, w) for w in geo["weights"]]
    args = list(args)
    if geo.get("kwcall") and args:
        # documented argument names, used by the callers (simplefluidflower, examples)
        names = WEIGHT_NAMES[geo["cls"]]
        order = list(range(len(args)))
        if len(args) == 2 and geo["weights"][0]["seed"] % 2:
            order.reverse()  # depth=..., porosity=... as in simplefluidflower
        try:
            return getattr(darsia, geo["cls"])(**{names[i]: args[i] for i in order}, **kw)
        except TypeError as e:
            if "argument" in str(e):
                raise Violation("ctor-keywords", f"{geo['cls']}({', '.join(names)}=..., "
                                f"**shape metadata) raised TypeError({e})",
                                {"cls": geo["cls"], "dim": geo["dim"]})
            raise
    return getattr(darsia, geo["cls"])(*args, **kw)


def _effective_volume(geo):
    """Reference effective voxel volume on the native grid: voxel volume x all weights."""
    vol = np.full(_native(geo), float(np.prod(np.array(geo["vox"], dtype=float))))
    for w in geo["weights"]:
        vol = vol * _weight_array(geo, w).astype(float)
    return vol


def _gcd_grid(geo, rs):
    g = list(geo["m"])
    for r in rs:
        g = [math.gcd(a, b) for a, b in zip(g, r)]
    return g


def _field(geo, data, g, pseed, positive=False):
    shape = [b * gi for b, gi in zip(geo["base"], g)]
    if data["series"]:
        shape.append(data["nt"])
    if data["payload"] == "vector":
        shape.append(data["ncomp"])
    rng = np.random.default_rng(pseed)
    dt = np.dtype(data["dtype"])
    if dt.kind in "iu":
        # integer-typed data (photographs, counts): integers of that dtype, no wrap-around
        if positive:
            arr = rng.integers(1, 33, size=shape)
        elif dt.kind == "u":
            arr = rng.integers(0, 64, size=shape)
        else:
            arr = rng.integers(-32, 32, size=shape)
        return arr.astype(dt)
    if positive:
        arr = rng.integers(1, 33, size=shape) / 8.0
    else:
        arr = rng.integers(-32, 32, size=shape) / 8.0
    return arr.astype(dt)


def _prolong(arr, g, r):
    for i, (gi, ri) in enumerate(zip(g, r)):
        if ri != gi:
            arr = np.repeat(arr, ri // gi, axis=i)
    return np.ascontiguousarray(arr)


def _wrap(arr, geo, data, form):
    if form == "array":
        return arr
    return darsia.Image(arr, space_dim=geo["dim"], dimensions=_dimensions(geo),
                        series=data["series"], scalar=data["payload"] == "scalar")


def _reference(geo, field_native):
    """-> (integral, magnitude) per time step / component; independent einsum reference."""
    vol = _effective_volume(geo)
    sp = "abc"[: geo["dim"]]
    f = np.asarray(field_native, dtype=float)
    val = np.einsum(f"{sp},{sp}...->...", vol, f)
    mag = np.einsum(f"{sp},{sp}...->...", vol, np.abs(f))
    return val, mag


def _tags(geo, data):
    return {"cls": geo["cls"], "dim": geo["dim"], "weight": _wclass(geo),
            "data": _dclass(data)}


def _dclass(data):
    if data["payload"] == "scalar" and not data["series"]:
        return "scalar"
    return ("vector" if data["payload"] == "vector" else "scalar") + (
        "-series" if data["series"] else "")


def _nonscalar(data):
    return data["payload"] == "vector" or data["series"]


REJECTED = "rejected"


def _integrate(g, obj, geo, data, r, what):
    """integrate() with the two documented/known exception classes sorted out.

    * array weight, dim != 2, data resolution != native: documented ValueError -> REJECTED
    * array weight x vector/series data: np.multiply((H,W),(H,W,T)) cannot broadcast (or
      broadcasts along the wrong axes) -> Violation 'array-weight:nonscalar-data'
    """
    expect_reject = _has_array_weight(geo) and geo["dim"] != 2 and list(r) != list(geo["m"])
    try:
        val = g.integrate(obj)
    except ValueError as e:
        if expect_reject and "only supported in 2d" in str(e):
            return REJECTED
        if _has_array_weight(geo) and _nonscalar(data):
            raise Violation(
                "array-weight:nonscalar-data",
                f"{what}: {geo['cls']} with an array weight on {_native(geo)} voxels raised "
                f"ValueError({e}) for {_dclass(data)} data of shape "
                f"{list(np.shape(obj.img if isinstance(obj, darsia.Image) else obj))}",
                _tags(geo, data))
        raise
    if expect_reject:
        raise Violation("not-rejected", f"{what}: resized data accepted for an array weight in "
                        f"{geo['dim']}-D (documented ValueError)", _tags(geo, data))
    return val


def _misbroadcast(geo, data, shape):
    """True iff np.multiply(volume(spatial shape), data(shape)) is accepted by numpy although
    the volume lacks the trailing time/component axes (it then aligns with the wrong axes)."""
    if shape is None or not (_has_array_weight(geo) and _nonscalar(data)):
        return False
    try:
        np.broadcast_shapes(tuple(shape[: geo["dim"]]), tuple(shape))
    except ValueError:
        return False
    return True


def _compare(val, want, mag, tol, geo, data, kind, what, shape=None):
    """Shape and value comparison.  ``shape`` = shape of the integrated data: a failure for
    array weight x non-scalar data whose shapes numpy happens to broadcast is the silent form
    of 'array-weight:nonscalar-data' (same root cause as the ValueError form)."""
    val_a = np.asarray(val)
    want_a = np.asarray(want)
    bad_shape = val_a.shape != want_a.shape
    if not bad_shape:
        err = np.abs(val_a.astype(float) - want_a)
        bad = err > tol * np.asarray(mag) + 1e-300
    if bad_shape or np.any(bad):
        if _misbroadcast(geo, data, shape):
            kind = "array-weight:nonscalar-data"
        if bad_shape:
            msg = f"{what}: result shape {val_a.shape}, expected {want_a.shape}"
        else:
            i = np.unravel_index(int(np.argmax(err - tol * np.asarray(mag))), err.shape)
            msg = (f"{what}: got {val_a[i]!r}, expected {want_a[i]!r} "
                   f"(component {list(i)}, |diff| {err[i]:.3e})")
        raise Violation(kind, f"{geo['cls']} dim {geo['dim']} native {_native(geo)} "
                        f"weight {_wclass(geo)}; {msg}", _tags(geo, data))


def _tol(geo, data, r):
    resized_array = _has_array_weight(geo) and list(r) != list(geo["m"])
    return TOL_CV if (data["dtype"] == "float32" or resized_array) else TOL64


def _rclass(geo, r):
    m = geo["m"]
    if list(r) == list(m):
        return "native"
    if all(ri >= mi for ri, mi in zip(r, m)):
        return "finer"
    if any(ri > mi for ri, mi in zip(r, m)):
        return "mixed"
    if all(mi % ri == 0 for ri, mi in zip(r, m)):
        ks = {mi // ri for ri, mi in zip(r, m)}
        return "coarser" if len(ks) == 1 else "other-int"
    return "other-nonint"


def _labels(geo, data, rs=()):
    labs = [geo["cls"], f"dim{geo['dim']}", f"weight-{_wclass(geo)}", f"data-{_dclass(data)}",
            f"vox-{geo['vk']}", f"ctor-{geo['ctor']}"]
    if geo["ctor"] == "meta_other" or (
            geo["ctor"] == "both" and list(geo["vox_given"]) != list(geo["vox"])):
        labs.append("ctor:dimensions+foreign-voxel-size")
    if geo.get("kwcall") and geo["weights"]:
        labs.append("weights-by-keyword")
    for sf in sorted({w.get("sform", "float") for w in geo["weights"] if w["kind"] == "scalar"}):
        labs.append(f"wscalar-{sf}")
    if 1 in _native(geo):
        labs.append("thin")
    for c in sorted({_rclass(geo, r) for r in rs}):
        labs.append(f"res-{c}")
    return tuple(labs)


def _nonconst_weight(geo):
    return any(w["kind"] != "scalar" and not w["const"] for w in geo["weights"]) and \
        int(np.prod(_native(geo))) > 1


def _key(case):
    return case


# ---------------------------------------------------------------------------------------
# 1. weighted sum at native resolution
# ---------------------------------------------------------------------------------------


INT_DTYPES = ("uint8", "uint16", "int32", "int64")


def _is_int(dtype):
    return np.dtype(dtype).kind in "iu"


def gen_single(tier, dtypes=("float64",) * 5 + ("float32", "float32", "uint8", "int16")):
    return st.fixed_dictionaries({
        "geo": geo_specs(),
        "data": data_specs(dtypes),
        "pseed": st.integers(0, 2**20),
        "form": st.sampled_from(["array", "image"]),
    })


def check_weighted_sum(case):
    geo, data = case["geo"], case["data"]
    g = build_geometry(geo)
    m = geo["m"]
    arr = _field(geo, data, m, case["pseed"])
    want, mag = _reference(geo, arr)
    val = _integrate(g, _wrap(arr.copy(), geo, data, case["form"]), geo, data, m, "native")
    _compare(val, want, mag, _tol(geo, data, m), geo, data, "weighted-sum", "native integral",
             arr.shape)
    # the documented attributes the reference relies on
    vs = np.asarray(g.voxel_size, dtype=float)
    if not np.allclose(vs, geo["vox"], rtol=1e-15 * 8, atol=0):
        raise Violation("voxel-size", f"{vs.tolist()} vs {geo['vox']}", _tags(geo, data))
    dm = np.asarray(g.dimensions, dtype=float)
    if not np.allclose(dm, _dimensions(geo), rtol=1e-15 * 8, atol=0):
        raise Violation("dimensions", f"{dm.tolist()} vs {_dimensions(geo)}", _tags(geo, data))
    nt = _nonconst_weight(geo) or _nonscalar(data) or geo["dim"] >= 2
    return Outcome(nt, _key(case), _labels(geo, data, [m]) + (data["dtype"],))


# ---------------------------------------------------------------------------------------
# 2. linearity
# ---------------------------------------------------------------------------------------

COEFF = [-2.0, -1.0, -0.5, 0.25, 0.5, 1.0, 2.0, 3.0]


def gen_linear(tier):
    @st.composite
    def strat(draw):
        geo = draw(geo_specs())
        return {
            "geo": geo,
            "data": draw(data_specs()),
            "r": draw(resolutions(geo, _res_kinds(geo))),
            "pseed": [draw(st.integers(0, 2**20)), draw(st.integers(0, 2**20))],
            "alpha": draw(st.sampled_from(COEFF)),
            "beta": draw(st.sampled_from(COEFF)),
            "form": draw(st.sampled_from(["array", "image"])),
        }

    return strat()


def check_linearity(case):
    geo, data, r = case["geo"], case["data"], case["r"]
    g = build_geometry(geo)
    gg = _gcd_grid(geo, [r])
    a = _prolong(_field(geo, data, gg, case["pseed"][0]), gg, r)
    b = _prolong(_field(geo, data, gg, case["pseed"][1]), gg, r)
    al, be = case["alpha"], case["beta"]
    comb = al * a + be * b
    vals = []
    for name, arr in (("a", a), ("b", b), ("alpha*a+beta*b", comb)):
        v = _integrate(g, _wrap(arr.copy(), geo, data, case["form"]), geo, data, r, name)
        if v is REJECTED:
            return Outcome(False, _key(case), _labels(geo, data, [r]), status="rejected")
        vals.append(np.asarray(v, dtype=float))
    # magnitudes from the reference model at native resolution (same field, prolonged)
    _, mag_a = _reference(geo, _prolong(_field(geo, data, gg, case["pseed"][0]), gg, geo["m"]))
    _, mag_b = _reference(geo, _prolong(_field(geo, data, gg, case["pseed"][1]), gg, geo["m"]))
    mag = abs(al) * mag_a + abs(be) * mag_b
    if vals[0].shape != vals[2].shape or vals[1].shape != vals[2].shape:
        _compare(vals[2], vals[0], mag, 0, geo, data, "linearity", "I(alpha a + beta b) shape",
                 a.shape)
    want = al * vals[0] + be * vals[1]
    _compare(vals[2], want, mag, 1e-12, geo, data, "linearity",
             f"I({al} a + {be} b) vs {al} I(a) + {be} I(b) at resolution {_rclass(geo, r)}",
             a.shape)
    return Outcome(True, _key(case), _labels(geo, data, [r]), evals=3)


# ---------------------------------------------------------------------------------------
# 3. resolution independence
# ---------------------------------------------------------------------------------------


def gen_resolution(tier):
    @st.composite
    def strat(draw):
        kinds = ("coarser", "other", "finer", "mixed")
        if draw(st.integers(0, 2)) == 0:
            # the class with the real work: spatially varying volume, resized by cv2 (2-D)
            geo = draw(geo_specs(dims=(2,), classes=CLASSES[1:]))
            if not _has_array_weight(geo):
                geo["weights"][0]["kind"] = "array"
        else:
            geo = draw(geo_specs())
        if _has_array_weight(geo) and geo["dim"] != 2 and draw(st.integers(0, 5)) > 0:
            # documented rejection: keep this class to ~1/6 of the non-2-D array weights
            geo = dict(geo, weights=[dict(w, kind="scalar") for w in geo["weights"]])
        n = draw(st.integers(1, 3))
        return {
            "geo": geo,
            "data": draw(data_specs()),
            "rs": [draw(resolutions(geo, kinds)) for _ in range(n)],
            "pseed": draw(st.integers(0, 2**20)),
            "form": draw(st.sampled_from(["array", "image"])),
        }

    return strat()


def check_resolution(case):
    geo, data, rs = case["geo"], case["data"], case["rs"]
    m = geo["m"]
    gg = _gcd_grid(geo, rs)
    fld = _field(geo, data, gg, case["pseed"])
    native = _prolong(fld, gg, m)
    want, mag = _reference(geo, native)
    # the geometry's own resolution first (fresh object)
    v0 = _integrate(build_geometry(geo), _wrap(native.copy(), geo, data, case["form"]),
                    geo, data, m, "native")
    _compare(v0, want, mag, _tol(geo, data, m), geo, data, "weighted-sum", "native integral",
             native.shape)
    n_ok = 0
    n_rej = 0
    for r in rs:
        if list(r) == list(m):
            continue
        arr = _prolong(fld, gg, r)
        g = build_geometry(geo)  # fresh: this law is about one call
        v = _integrate(g, _wrap(arr.copy(), geo, data, case["form"]), geo, data, r,
                       f"resolution {_rclass(geo, r)}")
        if v is REJECTED:
            n_rej += 1
            continue
        n_ok += 1
        rc = _rclass(geo, r)
        _compare(v, want, mag, _tol(geo, data, r), geo, data,
                 f"resolution:{_wclass(geo)}-weight",
                 f"same field on {[b * ri for b, ri in zip(geo['base'], r)]} voxels ({rc})",
                 arr.shape)
        _compare(v, v0, mag, _tol(geo, data, r), geo, data,
                 f"resolution:{_wclass(geo)}-weight", f"{rc} vs native call", arr.shape)
    if n_ok == 0:
        return Outcome(False, _key(case), _labels(geo, data, rs),
                       status="rejected" if n_rej else "skipped")
    return Outcome(True, _key(case), _labels(geo, data, rs), evals=n_ok)


# ---------------------------------------------------------------------------------------
# 4. history independence
# ---------------------------------------------------------------------------------------


def gen_history(tier):
    @st.composite
    def strat(draw):
        geo = draw(geo_specs())
        n = draw(st.sampled_from([1, 2, 2, 3, 3, 4, 4, 5, 5]))
        calls = []
        kinds = _res_kinds(geo, resized_weight=1)
        for _ in range(n):
            calls.append({
                "r": draw(resolutions(geo, kinds)),
                "pseed": draw(st.integers(0, 2**20)),
                "form": draw(st.sampled_from(["array", "image"])),
            })
        if n >= 2 and draw(st.booleans()):
            # the interesting shape of a history: back to native after a resized call
            if all(c["r"] == list(geo["m"]) for c in calls[:-1]):
                calls[0]["r"] = draw(resolutions(geo, ("coarser", "other", "finer")))
            calls[-1]["r"] = list(geo["m"])
        data = draw(data_specs())
        if n >= 2 and draw(st.booleans()):
            # one geometry object serves every kind of data of a program: a scalar map, then a
            # time series, then a vector field ... (calls without "data" use the common kind)
            for c in calls:
                if draw(st.integers(0, 3)) > 0:
                    c["data"] = draw(data_specs())
        return {"geo": geo, "data": data, "calls": calls}

    return strat()


def check_history(case):
    geo, data, calls = case["geo"], case["data"], case["calls"]
    m = list(geo["m"])
    gg = _gcd_grid(geo, [c["r"] for c in calls])
    g = build_geometry(geo)
    seen_resized = False
    returned = False
    n = 0
    common = data
    kinds_seen = set()
    for k, c in enumerate(calls):
        r = c["r"]
        data = c.get("data", common)
        kinds_seen.add((_dclass(data), data["nt"], data["ncomp"]))
        fld = _field(geo, data, gg, c["pseed"])
        arr = _prolong(fld, gg, r)
        what = f"call {k + 1}/{len(calls)} ({_rclass(geo, r)}, {_dclass(data)} data)"
        v_hist = _integrate(g, _wrap(arr.copy(), geo, data, c["form"]), geo, data, r, what)
        v_fresh = _integrate(build_geometry(geo), _wrap(arr.copy(), geo, data, c["form"]),
                             geo, data, r, what + " on a fresh object")
        if (v_hist is REJECTED) != (v_fresh is REJECTED):
            raise Violation("history:rejection", f"{what}: rejected on one object only",
                            _tags(geo, data))
        is_native = list(r) == m
        if v_hist is REJECTED:
            continue
        n += 1
        want, mag = _reference(geo, _prolong(fld, gg, m))
        kind = f"history:{_wclass(geo)}-weight"
        if not _has_array_weight(geo) and seen_resized:
            kind = "stale-cache:scalar"
        hist = [_rclass(geo, cc["r"]) + ":" + _dclass(cc.get("data", common))
                for cc in calls[: k + 1]]
        _compare(v_hist, np.asarray(v_fresh, dtype=float), mag, TOL64, geo, data, kind,
                 f"{what} after history {hist} differs from the same call on a fresh object",
                 arr.shape)
        # ... and is the weighted sum itself (independent reference, not only self-consistency)
        _compare(v_hist, want, mag, _tol(geo, data, r), geo, data,
                 "weighted-sum" if is_native else f"resolution:{_wclass(geo)}-weight",
                 f"{what} after history {hist}: weighted sum", arr.shape)
        if is_native and seen_resized:
            returned = True
        if not is_native:
            seen_resized = True
    if n == 0:
        return Outcome(False, _key(case), _labels(geo, common, [c["r"] for c in calls]),
                       status="rejected")
    datas = [c.get("data", common) for c in calls]
    nt = returned or _nonconst_weight(geo) or any(_nonscalar(d) for d in datas)
    labs = _labels(geo, common, [c["r"] for c in calls]) + (
        f"len{len(calls)}", "returns-to-native" if returned else "no-return",
        "data-kinds-mixed" if len(kinds_seen) > 1 else "data-kinds-same")
    if len(kinds_seen) > 1 and _has_array_weight(geo):
        labs += ("data-kinds-mixed:array-weight",)
    return Outcome(nt, _key(case), labs, evals=n)


# ---------------------------------------------------------------------------------------
# 5. normalize
# ---------------------------------------------------------------------------------------


def gen_normalize(tier):
    @st.composite
    def strat(draw):
        geo = draw(geo_specs())
        return {
            "geo": geo,
            "data": draw(data_specs(("float64", "float64", "float32"))),
            "r": draw(resolutions(geo, _res_kinds(geo))),
            # resolution of the reference image (None: that of the image): integrals are
            # resolution-aware, so a reference from another source (simulation, coarse scan)
            # is normalised against just the same
            "r_ref": draw(st.one_of(st.none(), resolutions(geo, _res_kinds(geo, 2)))),
            # sign of the image: positive, or negative (signed storage types only)
            "sign": draw(st.sampled_from(["pos", "pos", "pos", "neg"])),
            "pseed": [draw(st.integers(0, 2**20)), draw(st.integers(0, 2**20))],
            # amplitude of the data (power of two: exact): normalisation is scale-free, so tiny or
            # huge absolute integrals (SI units, mm-sized cells) must behave like order-one ones
            "amp_exp": draw(st.sampled_from([0, 0, -20, -40, -60, 30])),
            # storage type of the image to be normalised (photographs are uint8 / uint16,
            # counts are integers): None = the float type of the reference; ref_int = the
            # reference is stored with the same integer type
            "idtype": draw(st.sampled_from([None] * 8 + list(INT_DTYPES))),
            "ref_int": draw(st.booleans()),
        }

    return strat()


def check_normalize(case):
    geo, data, r = case["geo"], case["data"], case["r"]
    r_ref = case.get("r_ref") or r
    gg = _gcd_grid(geo, [r, r_ref])
    # one-signed image (non-zero integral per time step / component), general reference
    idtype = case.get("idtype") or data["dtype"]
    rdtype = idtype if (_is_int(idtype) and case.get("ref_int")) else data["dtype"]
    f_img = _field(geo, dict(data, dtype=idtype), gg, case["pseed"][0], positive=True)
    negative = case.get("sign") == "neg" and np.dtype(idtype).kind != "u"
    if negative:
        f_img = -f_img
    f_ref = _field(geo, dict(data, dtype=rdtype), gg, case["pseed"][1])
    amp = 2.0 ** case.get("amp_exp", 0)
    if not _is_int(idtype):  # (a power of two: exact, the float type is kept)
        f_img = f_img * amp
    if not _is_int(rdtype):
        f_ref = f_ref * amp
    f32 = "float32" in (idtype, rdtype)
    a_img = _prolong(f_img, gg, r)
    a_ref = _prolong(f_ref, gg, r_ref)
    g = build_geometry(geo)
    img = _wrap(a_img.copy(), geo, data, "image")
    ref = _wrap(a_ref.copy(), geo, data, "image")
    # (fresh objects: the integrals the normalisation has to reproduce)
    i_ref = _integrate(build_geometry(geo), ref, geo, data, r_ref, "reference")
    i_img = _integrate(build_geometry(geo), img, geo, data, r, "image")
    if i_ref is REJECTED or i_img is REJECTED:
        return Outcome(False, _key(case), _labels(geo, data, [r, r_ref]), status="rejected")
    t = _tags(geo, data)
    t["dtype"] = idtype
    try:
        out = g.normalize(img, ref)
        out2, ratio = g.normalize(img, ref, return_ratio=True)
    except TypeError as e:
        if _is_int(idtype) and not _nonscalar(data):
            # scalar ratio: darsia.weight multiplies the integer array in place by a float
            raise Violation("normalize:integer-scalar", f"normalize of a scalar {idtype} image "
                            f"raised {type(e).__name__}({e}) (vector / series images of the "
                            "same type are rescaled to a float image)", t)
        raise
    except ValueError as e:
        if idtype == "float32" and not _nonscalar(data) and not _has_array_weight(geo):
            # np.float32 ratio is neither float nor ndarray for darsia.weight
            raise Violation("normalize:float32-scalar", f"normalize of a float32 scalar image "
                            f"raised ValueError({e}) (the float32 ratio is rejected by "
                            "darsia.weight)", t)
        if _has_array_weight(geo) and _nonscalar(data):
            raise Violation("array-weight:nonscalar-data", f"normalize: ValueError({e})", t)
        raise
    _, mag_ref = _reference(geo, _prolong(f_ref, gg, geo["m"]))
    _, mag_img = _reference(geo, _prolong(f_img, gg, geo["m"]))
    tol = TOL_CV if f32 else 1e-12
    # (same object that normalised: its last call saw the resolution of the image)
    i_out = _integrate(g, out, geo, data, r, "normalized image")
    i_ref_again = _integrate(g, ref, geo, data, r_ref, "reference after normalize")
    _compare(i_ref_again, np.asarray(i_ref, dtype=float), mag_ref, TOL64, geo, data,
             "normalize-history", "integral of the reference on the object that normalised vs "
             "on a fresh object", a_ref.shape)
    # |I(out) - I(ref)|: out = img * (I_ref/I_img); rounding relative to |I_ref| * mag_img/I_img
    i_img_f = np.asarray(i_img, dtype=float)
    scale = mag_ref + np.abs(np.asarray(i_ref, dtype=float)) * mag_img / np.abs(i_img_f)
    _compare(i_out, np.asarray(i_ref, dtype=float), scale, tol, geo, data, "normalize",
             "integral of the normalized image vs integral of the reference", a_img.shape)
    want_ratio = np.asarray(i_ref, dtype=float) / i_img_f
    _compare(ratio, want_ratio, np.abs(want_ratio) + mag_ref / np.abs(i_img_f), tol, geo, data,
             "normalize-ratio", "returned ratio vs I(ref)/I(img)", a_img.shape)
    if not np.array_equal(out.img, out2.img):
        raise Violation("normalize-return-ratio", "image differs with return_ratio=True", t)
    if out.img.shape != a_img.shape:
        raise Violation("normalize-shape", f"{out.img.shape} vs {a_img.shape}", t)
    want_img = a_img.astype(float) * want_ratio
    if not np.allclose(out.img, want_img, rtol=tol * 10, atol=0):
        raise Violation("normalize-rescale", "normalized image is not image x ratio", t)
    if not np.array_equal(img.img, a_img) or not np.array_equal(ref.img, a_ref):
        raise Violation("normalize-mutates", "normalize modified its arguments", t)
    labs = (f"img-{idtype}", f"ref-{rdtype}", f"amp2^{case.get('amp_exp', 0)}",
            "img-negative" if negative else "img-positive",
            "ref-res-differs" if list(r_ref) != list(r) else "ref-res-same")
    if _is_int(idtype):
        labs += ("int-image:" + ("nonscalar" if _nonscalar(data) else "scalar"),)
    return Outcome(True, [_key(case), case.get("amp_exp", 0)],
                   _labels(geo, data, [r, r_ref]) + labs, evals=3)


# ---------------------------------------------------------------------------------------
# 6. Image == array
# ---------------------------------------------------------------------------------------


def gen_image_array(tier):
    @st.composite
    def strat(draw):
        geo = draw(geo_specs())
        return {
            "geo": geo,
            "data": draw(data_specs(("float64",) * 4 + ("float32", "float32", "uint8", "int32"))),
            "r": draw(resolutions(geo, _res_kinds(geo))),
            "pseed": draw(st.integers(0, 2**20)),
        }

    return strat()


def check_image_array(case):
    geo, data, r = case["geo"], case["data"], case["r"]
    gg = _gcd_grid(geo, [r])
    arr = _prolong(_field(geo, data, gg, case["pseed"]), gg, r)
    img = _wrap(arr.copy(), geo, data, "image")
    g = build_geometry(geo)
    vi = _integrate(g, img, geo, data, r, "Image")
    if vi is REJECTED:
        return Outcome(False, _key(case), _labels(geo, data, [r]), status="rejected")
    va = _integrate(g, img.img, geo, data, r, "Image.img")
    vf = _integrate(build_geometry(geo), arr.copy(), geo, data, r, "array on a fresh object")
    _, mag = _reference(geo, _prolong(_field(geo, data, gg, case["pseed"]), gg, geo["m"]))
    _compare(vi, np.asarray(va, dtype=float), mag, 0.0, geo, data, "image-vs-array",
             "integrate(Image) vs integrate(Image.img)", arr.shape)
    _compare(vi, np.asarray(vf, dtype=float), mag, 0.0, geo, data, "image-vs-array",
             "integrate(Image) vs integrate(array) on a fresh object", arr.shape)
    if np.asarray(vi).dtype != np.asarray(va).dtype:
        raise Violation("image-vs-array-dtype", f"{np.asarray(vi).dtype} vs "
                        f"{np.asarray(va).dtype}", _tags(geo, data))
    if not np.array_equal(img.img, arr):
        raise Violation("integrate-mutates", "integrate modified the data", _tags(geo, data))
    return Outcome(True, _key(case), _labels(geo, data, [r]) + (data["dtype"],), evals=2)


# ---------------------------------------------------------------------------------------
# 7. weights shared between geometry objects
# ---------------------------------------------------------------------------------------
#
# A depth / porosity map is one object in a user's program and is handed to every geometry
# that needs it: a fresh object of the same class, an extruded and an extruded-porous
# geometry sharing the depth map, ...  Each of these geometries integrates to the weighted
# sum with the weights *as provided* - which requires that building and using a geometry
# leaves the weight objects alone.  Case layout::
#
#     geo    = grid only (cls "Geometry", no weights)
#     pool   = [w0, w1]       weight specs (as in geo["weights"], plus wdtype); w0 is an array
#     builds = [{cls, idx}]   geometries built one after the other from pool[idx[...]]


def gen_shared(tier):
    @st.composite
    def strat(draw):
        geo = draw(geo_specs(classes=("Geometry",)))
        pool = []
        for k in range(2):
            kinds = ["array", "array", "image"] if k == 0 else ["array", "array", "image", "scalar"]
            pool.append({
                "kind": draw(st.sampled_from(kinds)),
                "val": draw(st.integers(1, 16)) / 8.0,
                "seed": draw(st.integers(0, 2**16)),
                "const": draw(st.integers(0, 7)) == 0,
                "wdtype": draw(st.sampled_from(["float64", "float64", "float64", "int64", "uint8"])),
            })
        builds = []
        for k in range(draw(st.sampled_from([2, 2, 3]))):
            cls = draw(st.sampled_from(CLASSES[1:]))
            other = draw(st.integers(0, 1))
            if NWEIGHTS[cls] == 1:
                idx = [0 if k < 2 else other]  # the first two builds share pool[0]
            else:
                idx = [0, other] if draw(st.booleans()) else [other, 0]
            builds.append({"cls": cls, "idx": idx})
        gw = dict(geo, cls="WeightedGeometry", weights=pool)
        return {
            "geo": geo,
            "pool": pool,
            "builds": builds,
            "data": draw(data_specs()),
            "r": draw(resolutions(gw, _res_kinds(gw))),
            "pseed": draw(st.integers(0, 2**20)),
            "form": draw(st.sampled_from(["array", "image"])),
        }

    return strat()


def _raw(obj):
    return obj.img if isinstance(obj, darsia.Image) else obj


def check_shared(case):
    geo, data, r = case["geo"], case["data"], case["r"]
    pool, builds = case["pool"], case["builds"]
    m = list(geo["m"])
    objs = [_weight_object(geo, w) for w in pool]
    snaps = [np.array(_raw(o), copy=True) for o in objs]
    gg = _gcd_grid(geo, [r])
    fld = _field(geo, data, gg, case["pseed"])
    arr = _prolong(fld, gg, r)
    native = _prolong(fld, gg, m)

    def unchanged(when, gk):
        for i, (o, s0) in enumerate(zip(objs, snaps)):
            now = np.asarray(_raw(o))
            if now.dtype != s0.dtype or not np.array_equal(now, s0):
                raise Violation(
                    "weight-modified",
                    f"{when}: the {pool[i]['kind']} weight ({s0.dtype}, {list(s0.shape)}) handed to "
                    f"the constructor was modified (max |change| "
                    f"{float(np.max(np.abs(now.astype(float) - s0.astype(float)))):.3e}); every "
                    "further geometry built from it integrates with other weights than provided",
                    _tags(gk, data))

    geos, objs_g, firsts = [], [], []
    n = 0
    for k, b in enumerate(builds):
        gk = dict(geo, cls=b["cls"], weights=[pool[i] for i in b["idx"]])
        args = []
        for i in b["idx"]:
            # only the extruded porous geometry documents Images: the others get the array
            args.append(objs[i] if b["cls"] == "ExtrudedPorousGeometry" else _raw(objs[i]))
        what = f"geometry {k + 1}/{len(builds)} ({b['cls']}, weights {b['idx']} of the pool)"
        g = build_geometry(gk, args)
        unchanged(f"after building {what}", gk)
        v = _integrate(g, _wrap(arr.copy(), gk, data, case["form"]), gk, data, r, what)
        unchanged(f"after integrating with {what}", gk)
        geos.append(gk)
        objs_g.append(g)
        firsts.append(v)
        if v is REJECTED:
            continue
        n += 1
        want, mag = _reference(gk, native)
        _compare(v, want, mag, _tol(gk, data, r), gk, data,
                 "weighted-sum" if k == 0 else "shared-weight",
                 f"{what} at resolution {_rclass(geo, r)}: weighted sum with the provided weights",
                 arr.shape)
    # the earlier objects are not affected by the later ones
    for k, (gk, g, v1) in enumerate(zip(geos[:-1], objs_g[:-1], firsts[:-1])):
        what = f"geometry {k + 1} again after building {len(builds) - k - 1} more"
        v = _integrate(g, _wrap(arr.copy(), gk, data, case["form"]), gk, data, r, what)
        if (v is REJECTED) != (v1 is REJECTED):
            raise Violation("history:rejection", f"{what}: rejected once only", _tags(gk, data))
        if v is REJECTED:
            continue
        _, mag = _reference(gk, native)
        _compare(v, np.asarray(v1, dtype=float), mag, 0.0, gk, data, "shared-weight",
                 f"{what} differs from its first value", arr.shape)
    unchanged("at the end", geos[0])
    shared_kinds = sorted({pool[i]["kind"] for i in set(builds[0]["idx"]) & set(builds[1]["idx"])})
    labs = [f"dim{geo['dim']}", f"data-{_dclass(data)}", f"res-{_rclass(geo, r)}",
            f"builds{len(builds)}",
            "same-class" if builds[0]["cls"] == builds[1]["cls"] else "cross-class"]
    labs += [f"share-{k}" for k in shared_kinds]
    labs += sorted({f"wdtype-{pool[i]['wdtype']}" for b in builds for i in b["idx"]
                    if pool[i]["kind"] != "scalar"})
    labs += sorted({b["cls"] for b in builds})
    if n == 0:
        return Outcome(False, _key(case), tuple(labs), status="rejected")
    return Outcome(True, _key(case), tuple(labs), evals=n + len(builds) - 1)


# ---------------------------------------------------------------------------------------
# 8. normalize / integrate on one geometry with re-used, updated Image objects
# ---------------------------------------------------------------------------------------
#
# Images are mutable objects of a user's program: a baseline is refreshed (``ref.img = ...``),
# a signal is rescaled in place (``img.img *= 2``), and the same objects are handed to the
# same geometry again.  normalize() / integrate() are functions of the *current contents* of
# their arguments: every call gives what a fresh geometry gives for fresh Image objects with
# the same contents, and the integral of the normalised image equals the integral of the
# reference as it is at the time of the call.  Case layout::
#
#     pool  = [{r, pseed}]                      Image objects (positive data, resolution r)
#     steps = [{img, ref, upd}]                 normalize(pool[img], pool[ref]) after the update
#     upd   = None | {obj, how, pseed, factor}  how: replace (obj.img = new array) /
#                                               assign (obj.img[...] = new) / scale (obj.img *= f)


def gen_normalize_history(tier):
    @st.composite
    def strat(draw):
        geo = draw(geo_specs())
        kinds = _res_kinds(geo)
        if _has_array_weight(geo) and geo["dim"] != 2:
            kinds = ("native",)  # (resized data: documented ValueError, see sub-check 3)
        npool = draw(st.sampled_from([2, 2, 3]))
        pool = [{"r": draw(resolutions(geo, kinds)), "pseed": draw(st.integers(0, 2**20))}
                for _ in range(npool)]
        steps = []
        for k in range(draw(st.sampled_from([2, 2, 3, 3, 4]))):
            if k > 0 and draw(st.integers(0, 3)) > 0:
                # the same reference object again (one baseline, many images) ...
                ref = steps[-1]["ref"]
            else:
                ref = draw(st.integers(0, npool - 1))
            img = draw(st.sampled_from([i for i in range(npool) if i != ref]))
            upd = None
            if k > 0 and draw(st.integers(0, 4)) > 0:
                # ... with new contents in about half of the updates, else any object
                obj = ref if draw(st.booleans()) else draw(st.integers(0, npool - 1))
                upd = {"obj": obj,
                       "how": draw(st.sampled_from(["replace", "assign", "scale"])),
                       "pseed": draw(st.integers(0, 2**20)),
                       "factor": draw(st.sampled_from([0.25, 0.5, 2.0, 3.0, 4.0]))}
            steps.append({"img": img, "ref": ref, "upd": upd})
        return {"geo": geo, "data": draw(data_specs()), "pool": pool, "steps": steps}

    return strat()


def check_normalize_history(case):
    geo, data, pool, steps = case["geo"], case["data"], case["pool"], case["steps"]
    m = list(geo["m"])
    rs = [p["r"] for p in pool]
    gg = _gcd_grid(geo, rs)
    # model: the field of every pool object on the common grid; objects: the user's Images
    flds = [_field(geo, data, gg, p["pseed"], positive=True) for p in pool]
    objs = [_wrap(_prolong(f, gg, p["r"]).copy(), geo, data, "image") for f, p in zip(flds, pool)]
    g = build_geometry(geo)
    t = _tags(geo, data)
    as_ref = {}  # pool index -> version of its contents when last used as reference
    version = [0] * len(pool)
    classes = set()
    for k, s in enumerate(steps):
        upd = s["upd"]
        if upd is not None:
            o = upd["obj"]
            if upd["how"] == "scale":
                flds[o] = flds[o] * upd["factor"]  # (dyadic x small factor: exact)
                objs[o].img *= upd["factor"]
            else:
                flds[o] = _field(geo, data, gg, upd["pseed"], positive=True)
                new = _prolong(flds[o], gg, pool[o]["r"]).copy()
                if upd["how"] == "replace":
                    objs[o].img = new
                else:
                    objs[o].img[...] = new
            version[o] += 1
        i, j = s["img"], s["ref"]
        ri, rj = pool[i]["r"], pool[j]["r"]
        if j in as_ref:
            cl = "ref-object-reused:" + ("updated" if as_ref[j] != version[j] else "unchanged")
        else:
            cl = "ref-object-new"
        classes.add(cl)
        as_ref[j] = version[j]
        a_img = _prolong(flds[i], gg, ri)
        a_ref = _prolong(flds[j], gg, rj)
        what = (f"normalize call {k + 1}/{len(steps)} (image = object {i}, reference = object "
                f"{j}, {cl}; update before the call: {upd['how'] if upd else 'none'})")
        if not np.array_equal(objs[i].img, a_img) or not np.array_equal(objs[j].img, a_ref):
            raise Violation("normalize-mutates", f"{what}: an earlier call modified the "
                            "Image objects", t)
        out, ratio = g.normalize(objs[i], objs[j], return_ratio=True)
        # the same call on a fresh geometry with fresh Image objects of the same contents
        gf = build_geometry(geo)
        out_f, ratio_f = gf.normalize(_wrap(a_img.copy(), geo, data, "image"),
                                      _wrap(a_ref.copy(), geo, data, "image"),
                                      return_ratio=True)
        want_i, mag_i = _reference(geo, _prolong(flds[i], gg, m))
        want_j, mag_j = _reference(geo, _prolong(flds[j], gg, m))
        want_ratio = want_j / want_i  # (positive data: integrals = magnitudes > 0)
        kind = "normalize-history:" + cl.split(":")[0]
        _compare(ratio, np.asarray(ratio_f, dtype=float), np.abs(want_ratio), 1e-12, geo, data,
                 kind, f"{what}: returned ratio differs from the same call on a fresh geometry "
                 "with fresh Image objects")
        if out.img.shape != out_f.img.shape or not np.allclose(out.img, out_f.img, rtol=1e-12,
                                                               atol=0):
            raise Violation(kind, f"{what}: normalised image differs from the same call on a "
                            "fresh geometry with fresh Image objects", t)
        tol = max(_tol(geo, data, ri), _tol(geo, data, rj), 1e-12)
        _compare(ratio, want_ratio, np.abs(want_ratio), 4 * tol, geo, data, "normalize-ratio",
                 f"{what}: returned ratio vs I(ref)/I(img) of the current contents")
        # the stated law, on the object that normalised: equal integrals
        i_out = _integrate(g, out, geo, data, ri, "normalized image")
        i_ref = _integrate(g, objs[j], geo, data, rj, "reference")
        _compare(i_out, np.asarray(i_ref, dtype=float), 2 * mag_j, tol, geo, data, "normalize",
                 f"{what}: integral of the normalized image vs integral of the reference")
        _compare(i_ref, want_j, mag_j, _tol(geo, data, rj), geo, data,
                 "weighted-sum" if list(rj) == m else f"resolution:{_wclass(geo)}-weight",
                 f"{what}: integral of the re-used reference object: weighted sum of its "
                 "current contents", a_ref.shape)
    labs = _labels(geo, data, rs) + tuple(sorted(classes)) + (f"steps{len(steps)}",)
    labs += tuple(sorted({"update-" + s["upd"]["how"] for s in steps if s["upd"]}))
    return Outcome(True, _key(case), labs, evals=3 * len(steps))


# ---------------------------------------------------------------------------------------

_RULE = ("Hypothesis draws the geometry class (5), space_dim 1-3, native extents 1..8 (1..16 in "
         "1-D) as base x multiplier, voxel sizes (unit / power-of-two / generic), constructor "
         "form (dimensions / voxel_size / **Image.shape_metadata() with both / in 1/4 of the "
         "cases dimensions with a voxel size that does not belong to them: the shape metadata "
         "of an image of the same domain on another voxelization with num_voxels replaced, or "
         "an explicit foreign voxel_size; weights positional "
         "or by keyword), weights (python float / int / numpy float / array / Image), payload "
         "kind (scalar / vector / series, as array or Image) and per call a resolution (native, "
         "uniformly coarser, per-axis coarser incl. non-integer ratios, integer finer, per-axis "
         "mixed finer/coarser for scalar or constant voxel volumes); the field lives "
         "on the gcd grid and is prolonged by np.repeat; history: in about 1/5 of the cases the "
         "calls of one history carry different kinds of data (scalar, series, vector; own "
         "number of time steps / components); non-trivial (history) = returns to "
         "native after a resized call, or non-constant array weight, or vector/series data; "
         "data dtype float64 / float32 / integer (weighted_sum, image_equals_array; normalize: "
         "image stored as uint8 / uint16 / int32 / int64 in 1/3 of the cases, reference float "
         "or the same integer type; image positive or (1/4) negative; reference at another "
         "resolution than the image in about 1/4 of the cases); shared_weights: 2-3 geometries (same or different "
         "weighted classes) built one after the other from one pool of weight objects "
         "(float64 / int64 / uint8 arrays, Images, floats), the first two share an array; "
         "normalize_history: 2-4 normalize() calls on one geometry with image and reference "
         "taken from a pool of 2-3 Image objects (own resolutions), the reference object of "
         "the previous call re-used in 3/4 of the calls, and before 4/5 of the later calls one "
         "object (every second time that reference) gets new contents (img replaced, assigned "
         "in place or rescaled in place); "
         "distinct = the whole case")

_SH = {"quick": 2, "thorough": 16}
_N = {"quick": 3000, "thorough": 30000}

PROP = Prop(
    pid="C03",
    rule=_RULE,
    assumptions=[
        "reference: np.einsum of the prolonged field with voxel volume x weights on the native grid",
        "dyadic payloads and weights; tolerance 1e-13 x sum of magnitudes (float64, scalar "
        "volume), 1e-5 x sum of magnitudes for float32 data and for cv2-resized array volumes",
        "only conservative regimes: no axis finer and another coarser than native for a "
        "spatially varying voxel volume (generated for scalar volumes and, in 2-D, constant "
        "array weights, where the rescaling is exact for any interpolation); refinement "
        "by integer factors only; array weights resized only in 2-D (documented ValueError "
        "elsewhere is counted as rejected)",
        "history_independence: every call is compared with the same call on a fresh object "
        "(1e-13) and with the einsum reference (tolerance of its resolution class)",
        "normalize: image with entries of one sign (non-zero integrals); float or integer "
        "storage types (integer entries 1..32, no wrap-around); the result is compared as "
        "returned (a float image for integer input); the integrals to be reproduced are taken "
        "on fresh geometry objects, the normalisation and the integral of its result on one "
        "further object; image and reference share the physical dimensions, not necessarily "
        "the resolution",
        "constructor call forms are those of the unit tests (positional weight, dimensions or "
        "voxel_size) and of the callers in the library / examples (weights by their documented "
        "keyword, **Image.shape_metadata() = consistent dimensions and voxel_size)",
        "a voxel_size passed together with dimensions is overruled by the dimensions (comment in "
        "Geometry.__init__): the reference voxel volume is prod(dimensions / num_voxels)",
        "normalize_history: positive float64 data (non-zero integrals); every call is compared "
        "with the same call on a fresh geometry with fresh Image objects of the current contents "
        "(1e-12), the ratio with the einsum reference, and the integrals of result and reference "
        "are taken on the object that normalised; Image contents are updated through the public "
        "attribute img (assignment or in-place arithmetic)",
        "shared_weights: weight objects are compared bit-wise with copies taken before the "
        "first constructor call; integer weight arrays (masks / counts 0..3) are accepted by "
        "np.multiply in the constructors and give float64 volumes",
    ],
    subs=[
        Sub("weighted_sum", check_weighted_sum, gen=gen_single,
            n=_N, shards=_SH),
        Sub("linearity", check_linearity, gen=gen_linear,
            n=_N, shards=_SH),
        Sub("resolution_independence", check_resolution, gen=gen_resolution,
            n=_N, shards=_SH),
        Sub("history_independence", check_history, gen=gen_history,
            n={"quick": 8100, "thorough": 100000}, shards={"quick": 6, "thorough": 16}),
        Sub("normalize", check_normalize, gen=gen_normalize,
            n=_N, shards=_SH),
        Sub("image_equals_array", check_image_array, gen=gen_image_array,
            n=_N, shards=_SH),
        Sub("shared_weights", check_shared, gen=gen_shared,
            n={"quick": 2000, "thorough": 20000}, shards=_SH),
        Sub("normalize_history", check_normalize_history, gen=gen_normalize_history,
            n={"quick": 1600, "thorough": 20000}, shards=_SH),
    ],
)
