"""C06 - finite-volume operators obey the discrete divergence theorem."""
import numpy as np
from hypothesis import strategies as st

import darsia
from vf import gens
from vf.oracles import RefGrid
from vf.props.c07 import all_shapes
from vf.runner import Outcome, Prop, Sub, Violation

VOX = {
    "unit": [1.0, 1.0, 1.0],
    "pow2": [0.5, 4.0, 0.125],
    "generic": [0.3, 1.7, 0.55],
}


def enum_cases(tier):
    out = []
    nseeds = 1 if tier == "quick" else 4
    for i, s in enumerate(all_shapes(tier)):
        for vk, v in VOX.items():
            for k in range(nseeds):
                out.append({"shape": s, "vox": v[: len(s)], "vk": vk, "pseed": 7 * i + k})
        # scalar voxel-size form of the constructor (isotropic), power-of-two and generic
        out.append({"shape": s, "vox": [0.5, 0.5, 0.5][: len(s)], "vk": "pow2", "pseed": 7 * i + 5, "scalar_vox": True})
        out.append({"shape": s, "vox": [0.3, 0.3, 0.3][: len(s)], "vk": "generic", "pseed": 7 * i + 6, "scalar_vox": True})
    return out


def gen_cases(tier):
    mx = {1: 30, 2: 9, 3: 6} if tier == "quick" else {1: 60, 2: 14, 3: 8}

    @st.composite
    def strat(draw):
        dim = draw(st.sampled_from([1, 2, 3]))
        shape = draw(gens.shapes(dim, mx[dim]))
        vk = draw(st.sampled_from(["pow2", "generic"]))
        vox = draw(gens.voxel_sizes(dim, vk))
        return {"shape": shape, "vox": vox, "vk": vk, "pseed": draw(st.integers(0, 2**20)),
                "scalar_vox": draw(st.sampled_from([False, False, False, True])),
                "pt": [draw(st.sampled_from([0.0, 1.0, 0.5, 0.25, draw(st.floats(0, 1))]))
                       for _ in range(dim)]}

    return strat()


def _setup(case):
    shape, vox = case["shape"], case["vox"]
    if case.get("scalar_vox"):
        # Grid accepts a scalar voxel size (isotropic voxels); the reference uses the expanded list
        vox = [vox[0]] * len(shape)
        g = darsia.Grid(shape=tuple(shape), voxel_size=float(vox[0]))
    else:
        g = darsia.Grid(shape=tuple(shape), voxel_size=list(vox))
    ref = RefGrid(shape, vox)
    rng = np.random.default_rng(case["pseed"])
    return g, ref, rng


def _t(case):
    return {"dim": len(case["shape"]), "vk": case["vk"]}


def _nt(case):
    return any(s >= 2 for s in case["shape"])


def _key(case):
    return [case["shape"], case["vox"], case["pseed"], case.get("pt"), bool(case.get("scalar_vox"))]


def _lab(case):
    return (f"dim{len(case['shape'])}", case["vk"], "thin" if 1 in case["shape"] else "thick",
            "voxel-size-scalar" if case.get("scalar_vox") else "voxel-size-list")


def _rtol(case):
    return 0.0 if case["vk"] in ("unit", "pow2") else 4e-15


def check_divergence(case):
    g, ref, rng = _setup(case)
    t = _t(case)
    div = darsia.FVDivergence(g).mat
    if div.shape != (ref.num_cells, ref.num_faces):
        raise Violation("div-shape", f"{div.shape}", t)
    got = div.toarray()
    want = ref.divergence()
    if not np.allclose(got, want, rtol=_rtol(case) * 4, atol=0):
        bad = np.argwhere(~np.isclose(got, want, rtol=_rtol(case) * 4, atol=0))[0]
        raise Violation("div-entry", f"entry {bad.tolist()}: {got[tuple(bad)]!r} vs net-outflow "
                        f"reference {want[tuple(bad)]!r}", t)
    # total divergence vanishes
    if ref.num_faces:
        cs = np.asarray(div.sum(axis=0)).ravel()
        if np.any(cs != 0.0):
            raise Violation("div-colsum", f"column sums not zero: max {np.abs(cs).max()!r}", t)
        u = rng.integers(-8, 9, size=ref.num_faces).astype(float)
        tot = float(np.sum(div.dot(u)))
        bound = 0.0 if case["vk"] != "generic" else 1e-13 * np.sum(np.abs(want) @ np.abs(u))
        if abs(tot) > bound:
            raise Violation("div-total", f"1^T div u = {tot!r}", t)
        # each cell: net outflow = sum over its faces of +-area*u
        net = want @ u
        if not np.allclose(div.dot(u), net, rtol=1e-13, atol=1e-13 * (np.abs(want) @ np.abs(u)).max()):
            raise Violation("div-apply", "div.dot(u) differs from net outflow", t)
    return Outcome(_nt(case), _key(case), _lab(case))


def check_adjoint(case):
    g, ref, rng = _setup(case)
    t = _t(case)
    div = darsia.FVDivergence(g).mat
    p = rng.integers(-8, 9, size=ref.num_cells).astype(float)
    got = div.T.dot(p)
    con = ref.connectivity()
    want = np.array([ref.face_area[d] * (p[con[f, 0]] - p[con[f, 1]])
                     for f, (d, _) in enumerate(ref.faces)]) if ref.num_faces else np.zeros(0)
    if got.shape != want.shape or not np.allclose(got, want, rtol=1e-14, atol=0):
        raise Violation("adjoint", "div^T p is not area*(p_lo - p_hi), i.e. minus the face difference", t)
    u = rng.integers(-8, 9, size=ref.num_faces).astype(float)
    lhs = float(p @ div.dot(u))
    rhs = float(u @ got)
    # both sides are sums of products area * p * u that may cancel: rounding is relative to the
    # sum of the magnitudes, not to the (possibly tiny) result
    mag = float(np.abs(p) @ (np.abs(ref.divergence()) @ np.abs(u))) if ref.num_faces else 0.0
    if abs(lhs - rhs) > 1e-13 * (1 + mag):
        raise Violation("adjoint-identity", f"<p, div u> = {lhs!r} but <div^T p, u> = {rhs!r}", t)
    return Outcome(_nt(case), _key(case), _lab(case))


def check_mass(case):
    g, ref, rng = _setup(case)
    t = _t(case)
    mc = darsia.FVMass(g, "cells").mat
    if mc.shape != (ref.num_cells, ref.num_cells):
        raise Violation("mass-shape", f"cells {mc.shape}", t)
    if not np.allclose(mc.toarray(), ref.vol * np.eye(ref.num_cells), rtol=4e-15, atol=0):
        raise Violation("mass-cells", "cell mass matrix is not voxel volume x identity", t)
    if ref.num_faces > 0:
        mf = darsia.FVMass(g, "faces").mat
        if mf.shape != (ref.num_faces, ref.num_faces):
            raise Violation("mass-shape", f"faces {mf.shape}", t)
        if not np.allclose(mf.toarray(), ref.vol * np.eye(ref.num_faces), rtol=4e-15, atol=0):
            raise Violation("mass-faces", "lumped face mass matrix is not voxel volume x identity", t)
        try:
            darsia.FVMass(g, "faces", lumping=False)
        except NotImplementedError:
            pass
        else:
            raise Violation("mass-nolump", "lumping=False did not raise NotImplementedError", t)
    return Outcome(_nt(case), _key(case), _lab(case))


def _pts(case, rng, dim):
    pts = [np.full(dim, 0.5), np.zeros(dim), np.ones(dim)]
    for d in range(dim):
        p = np.full(dim, 0.5)
        p[d] = 0.0
        pts.append(p)
        q = np.full(dim, 0.5)
        q[d] = 1.0
        pts.append(q)
    pts.append(rng.random(dim))
    pts.append(rng.integers(0, 9, size=dim) / 8.0)
    if case.get("pt") is not None:
        pts.append(np.array(case["pt"], dtype=float))
    return pts


def check_face_to_cell(case):
    g, ref, rng = _setup(case)
    t = _t(case)
    dim = ref.dim
    shape = ref.shape
    u = rng.integers(-8, 9, size=ref.num_faces).astype(float)
    # default point = centre = mean of the two opposite faces
    default = darsia.face_to_cell(g, u)
    n = 0
    for pt in [None] + _pts(case, rng, dim):
        arg = pt if (pt is None or dim > 1) else float(pt[0])
        got = darsia.face_to_cell(g, u, pt=arg) if pt is not None else default
        if got.shape != (*shape, dim):
            raise Violation("f2c-shape", f"{got.shape}", t)
        p = np.full(dim, 0.5) if pt is None else pt
        want = np.zeros((*shape, dim))
        for idx in np.ndindex(*shape):
            for d in range(dim):
                lo = list(idx)
                lo[d] -= 1
                f_lo = ref.face_of(d, tuple(lo))
                f_hi = ref.face_of(d, idx)
                u_lo = u[f_lo] if f_lo >= 0 else 0.0
                u_hi = u[f_hi] if f_hi >= 0 else 0.0
                want[idx + (d,)] = (1 - p[d]) * u_lo + p[d] * u_hi
        n += 1
        if not np.allclose(got, want, rtol=1e-14, atol=1e-14):
            bad = tuple(np.argwhere(~np.isclose(got, want, rtol=1e-14, atol=1e-14))[0])
            raise Violation("f2c-value", f"pt={None if pt is None else p.tolist()} cell/comp {bad}: "
                            f"{got[bad]!r} vs linear interpolation {want[bad]!r}", t)
    # linear in the flux
    u2 = rng.integers(-8, 9, size=ref.num_faces).astype(float)
    pt = _pts(case, rng, dim)[-1]
    arg = pt if dim > 1 else float(pt[0])
    a = darsia.face_to_cell(g, u, pt=arg)
    b = darsia.face_to_cell(g, u2, pt=arg)
    c = darsia.face_to_cell(g, 2 * u - 3 * u2, pt=arg)
    if not np.allclose(c, 2 * a - 3 * b, rtol=1e-13, atol=1e-13):
        raise Violation("f2c-linear", "face_to_cell is not linear in the flux", t)
    return Outcome(_nt(case), _key(case), _lab(case), evals=n)


def check_cell_to_face(case):
    g, ref, rng = _setup(case)
    t = _t(case)
    dim = ref.dim
    shape = ref.shape
    con = ref.connectivity()
    from scipy.stats import hmean  # noqa: F401  (reference below is written out by hand)

    n = 0
    for kind in ("scalar", "scalar1", "vector", "tensor"):
        if kind == "scalar":
            q = rng.integers(1, 17, size=shape) / 4.0
            comp = [q] * dim
        elif kind == "scalar1":
            q = rng.integers(1, 17, size=(*shape, 1)) / 4.0
            comp = [q[..., 0]] * dim
        elif kind == "vector":
            if dim == 1:
                continue  # (n,1) is the scalar1 layout
            q = rng.integers(1, 17, size=(*shape, dim)) / 4.0
            comp = [q[..., d] for d in range(dim)]
        else:
            q = rng.integers(1, 17, size=(*shape, dim, dim)) / 4.0
            comp = [q[..., d, d] for d in range(dim)]
        for mode in ("arithmetic", "harmonic"):
            got = darsia.cell_to_face_average(g, q, mode)
            if got.shape != (ref.num_faces,):
                raise Violation("c2f-shape", f"{kind}/{mode}: {got.shape}", t)
            want = np.zeros(ref.num_faces)
            for f, (d, _) in enumerate(ref.faces):
                a = comp[d].ravel("F")[con[f, 0]]
                b = comp[d].ravel("F")[con[f, 1]]
                want[f] = 0.5 * (a + b) if mode == "arithmetic" else 2.0 / (1.0 / a + 1.0 / b)
            n += 1
            if not np.allclose(got, want, rtol=1e-13, atol=0):
                bad = int(np.argwhere(~np.isclose(got, want, rtol=1e-13, atol=0))[0][0])
                raise Violation("c2f-value", f"{kind}/{mode} face {bad}: {got[bad]!r} vs {want[bad]!r}", t)
    # integer-typed cell fields (raw image data): same means as their float versions
    for dt in (np.uint8, np.uint16, np.int64):
        qi = rng.integers(1, 250, size=shape).astype(dt)
        for mode in ("arithmetic", "harmonic"):
            got = darsia.cell_to_face_average(g, qi, mode)
            want = np.zeros(ref.num_faces)
            qf = qi.astype(float).ravel("F")
            for f in range(ref.num_faces):
                a, b = qf[con[f, 0]], qf[con[f, 1]]
                want[f] = 0.5 * (a + b) if mode == "arithmetic" else 2.0 / (1.0 / a + 1.0 / b)
            n += 1
            if got.shape != want.shape or not np.allclose(got, want, rtol=1e-13, atol=0):
                raise Violation("c2f-integer-field", f"{np.dtype(dt).name}/{mode}: face average of an integer-typed "
                                f"cell field differs from the mean of the two neighbours", t)
    try:
        darsia.cell_to_face_average(g, rng.random(shape) + 1, "geometric")
    except ValueError:
        pass
    else:
        raise Violation("c2f-mode", "unknown averaging mode accepted", t)
    return Outcome(_nt(case), _key(case), _lab(case), evals=n)


def check_tangential(case):
    g, ref, rng = _setup(case)
    t = _t(case)
    dim = ref.dim
    if ref.num_faces == 0:
        full = darsia.FVFullFaceReconstruction(g)(np.zeros(0))
        if full.shape != (0, dim):
            raise Violation("tang-shape", f"{full.shape}", t)
        return Outcome(False, _key(case), _lab(case))
    c = rng.integers(-8, 9, size=dim).astype(float)
    u = np.zeros(ref.num_faces)
    for f, (d, _) in enumerate(ref.faces):
        u[f] = c[d]
    full = darsia.FVFullFaceReconstruction(g)(u)
    if full.shape != (ref.num_faces, dim):
        raise Violation("tang-shape", f"{full.shape}", t)
    for f, (d, _) in enumerate(ref.faces):
        if full[f, d] != u[f]:
            raise Violation("tang-normal", f"face {f}: normal component {full[f, d]!r} vs {u[f]!r}", t)
    n_int = 0
    for d in range(dim):
        for f in np.asarray(g.interior_faces[d]).ravel():
            n_int += 1
            if dim >= 2 and not np.allclose(full[f], c, rtol=0, atol=1e-14):
                raise Violation("tang-constant", f"interior face {f} (axis {d}): reconstructed "
                                f"{full[f].tolist()} for the constant field {c.tolist()}", t)
    # general field: tangential component = quarter of the sum over the existing tangential
    # neighbour faces of both adjacent cells
    u = rng.integers(-8, 9, size=ref.num_faces).astype(float)
    full = darsia.FVFullFaceReconstruction(g)(u)
    con = ref.connectivity()
    inv = {n: idx for idx, n in ref.cell_index.items()}
    for f, (d, _) in enumerate(ref.faces):
        for dp in range(dim):
            if dp == d:
                continue
            s = 0.0
            for cell in con[f]:
                idx = inv[int(cell)]
                lo = list(idx)
                lo[dp] -= 1
                for ff in (ref.face_of(dp, tuple(lo)), ref.face_of(dp, idx)):
                    if ff >= 0:
                        s += u[ff]
            if abs(full[f, dp] - 0.25 * s) > 1e-13:
                raise Violation("tang-average", f"face {f} (axis {d}) component {dp}: "
                                f"{full[f, dp]!r} vs {0.25 * s!r}", t)
    return Outcome(dim >= 2 and n_int > 0, _key(case), _lab(case))


_RULE = ("exhaustive part: every shape in the C07 range x {unit, power-of-two anisotropic, generic} "
         "voxel sizes with integer-valued random face fluxes / cell fields (exact arithmetic); random "
         "part: Hypothesis-drawn shapes, voxel sizes and evaluation points; non-trivial = at least "
         "one axis with >= 2 cells (faces exist); tangential law: dim >= 2 with interior faces; "
         "distinct = (shape, voxel sizes, payload seed, point)")
_SH = {"quick": 3, "thorough": 6}
_N = {"quick": 300, "thorough": 5000}
_RS = {"quick": 1, "thorough": 4}


def _subs():
    laws = [
        ("divergence_is_net_outflow", check_divergence),
        ("neg_adjoint", check_adjoint),
        ("mass_matrices", check_mass),
        ("face_to_cell_linear", check_face_to_cell),
        ("cell_to_face_mean", check_cell_to_face),
        ("tangential_reconstruction", check_tangential),
    ]
    out = []
    for name, fn in laws:
        out.append(Sub(name, fn, enum=enum_cases, exhaustive=True, shards=_SH))
    for name, fn in laws:
        out.append(Sub(name + "_random", fn, gen=gen_cases, n=_N, shards=_RS))
    return out


PROP = Prop(
    pid="C06",
    rule=_RULE,
    assumptions=["RefGrid incidence (independent enumeration) is the reference",
                 "integer-valued payloads: exact for unit / power-of-two voxel sizes, 1e-13 otherwise"],
    subs=_subs(),
)
