"""C06 - finite-volume operators obey the discrete divergence theorem."""
import copy

import numpy as np
from hypothesis import strategies as st

import darsia
from vf import gens
from vf.oracles import RefGrid
from vf.props.c07 import all_shapes
from vf.runner import Outcome, Prop, Sub, Violation

VOX = {
    "unit": [1.0, 1.0, 1.0],
    "pow2": [0.5, 4.0, 0.125],
    "generic": [0.3, 1.7, 0.55],
}

# payload magnitudes: every flux / cell field is an integer-valued (or k/4) array times 2**sc
# (exact scaling), so that the laws are checked on data that is not of order one as well
_ENUM_SC = (0, 0, -40, 33)


def enum_cases(tier):
    out = []
    nseeds = 1 if tier == "quick" else 4
    for i, s in enumerate(all_shapes(tier)):
        per_shape = []
        for vk, v in VOX.items():
            for k in range(nseeds):
                per_shape.append({"shape": s, "vox": v[: len(s)], "vk": vk, "pseed": 7 * i + k})
        # scalar voxel-size form of the constructor (isotropic), power-of-two and generic
        per_shape.append({"shape": s, "vox": [0.5, 0.5, 0.5][: len(s)], "vk": "pow2", "pseed": 7 * i + 5,
                          "scalar_vox": True})
        per_shape.append({"shape": s, "vox": [0.3, 0.3, 0.3][: len(s)], "vk": "generic", "pseed": 7 * i + 6,
                          "scalar_vox": True})
        # the grid of an image (darsia.generate_grid: shape and voxel sizes arrive as lists), and the
        # constructor's default voxel size
        vk = ("pow2", "generic")[i % 2]
        per_shape.append({"shape": s, "vox": VOX[vk][: len(s)], "vk": vk, "pseed": 7 * i + 4, "form": "image"})
        per_shape.append({"shape": s, "vox": VOX["unit"][: len(s)], "vk": "unit", "pseed": 7 * i + 3,
                          "form": "default"})
        for j, c in enumerate(per_shape):
            c["sc"] = _ENUM_SC[(i + j) % len(_ENUM_SC)]
        out += per_shape
    return out


_FORMS = ["list", "list", "list", "scalar", "image", "image", "intlist", "default"]


def gen_cases(tier, dims=(1, 2, 3), thin=True):
    mx = {1: 30, 2: 9, 3: 6} if tier == "quick" else {1: 60, 2: 14, 3: 8}

    @st.composite
    def strat(draw):
        dim = draw(st.sampled_from(list(dims)))
        shape = draw(gens.shapes(dim, mx[dim], thin_boost=thin or draw(st.integers(0, 2)) == 0))
        if all(n == 1 for n in shape) and draw(st.integers(0, 3)) > 0:
            # grids without any face stay in (empty operators), but rarely
            shape[draw(st.integers(0, dim - 1))] = draw(st.integers(2, mx[dim]))
        form = draw(st.sampled_from(_FORMS))
        if form == "default":
            vk, vox = "unit", [1.0] * dim
        elif form == "intlist":
            # products of small integers are exact, like the power-of-two class
            vk, vox = "integer", [float(draw(st.integers(1, 9))) for _ in range(dim)]
        else:
            vk = draw(st.sampled_from(["pow2", "generic"]))
            vox = draw(gens.voxel_sizes(dim, vk))
        return {"shape": shape, "vox": vox, "vk": vk, "pseed": draw(st.integers(0, 2**20)),
                "scalar_vox": form == "scalar", "form": form,
                "sc": draw(st.sampled_from([0, 0, -40, 33, draw(st.integers(-60, 60))])),
                "pt": [draw(st.sampled_from([0.0, 1.0, 0.5, 0.25, draw(st.floats(0, 1))]))
                       for _ in range(dim)]}

    return strat()


def _form(case):
    return case.get("form") or ("scalar" if case.get("scalar_vox") else "list")


def _make_grid(case):
    """-> (grid, voxel sizes the reference has to use)"""
    shape, vox = [int(n) for n in case["shape"]], [float(v) for v in case["vox"]]
    dim = len(shape)
    form = _form(case)
    if form == "scalar":
        # Grid accepts a scalar voxel size (isotropic voxels); the reference uses the expanded list
        return darsia.Grid(shape=tuple(shape), voxel_size=float(vox[0])), [vox[0]] * dim
    if form == "default":
        # voxel size omitted: unit voxels; the shape is handed over as a list (as generate_grid does)
        return darsia.Grid(list(shape)), [1.0] * dim
    if form == "intlist":
        # Python integers as voxel sizes (as in tests/unit/test_fv.py: voxel_size=[0.5, 0.25, 2])
        return darsia.Grid(shape=tuple(shape), voxel_size=[int(v) for v in vox]), vox
    if form == "image":
        # the grid of an image: voxel size = dimensions / number of voxels (C07 checks that part)
        dims = [shape[i] * vox[i] for i in range(dim)]
        img = darsia.Image(np.zeros(tuple(shape)), space_dim=dim, dimensions=list(dims), series=False,
                           scalar=True)
        return darsia.generate_grid(img), [dims[i] / shape[i] for i in range(dim)]
    return darsia.Grid(shape=tuple(shape), voxel_size=list(vox)), vox


def _setup(case, env=None):
    if env is not None:
        return env
    g, vox = _make_grid(case)
    ref = RefGrid(case["shape"], vox)
    rng = np.random.default_rng(case["pseed"])
    return g, ref, rng


def _scale(case):
    return float(2.0 ** int(case.get("sc", 0)))


def _t(case):
    return {"dim": len(case["shape"]), "vk": case["vk"]}


def _nt(case):
    return any(s >= 2 for s in case["shape"])


def _key(case):
    return [case["shape"], case["vox"], case["pseed"], case.get("pt"), _form(case), int(case.get("sc", 0)),
            case.get("ops")]


def _lab(case):
    sc = int(case.get("sc", 0))
    return (f"dim{len(case['shape'])}", case["vk"], "thin" if 1 in case["shape"] else "thick",
            "voxel-size-scalar" if _form(case) == "scalar" else "voxel-size-list",
            "grid-form-" + _form(case),
            "data-order-one" if sc == 0 else ("data-tiny" if sc < 0 else "data-huge"))


def _rtol(case):
    return 0.0 if case["vk"] in ("unit", "pow2", "integer") else 4e-15


def _unchanged(kind, what, before, after, t):
    """An operator / projection must not write into the arrays handed to it."""
    if before.shape != np.shape(after) or not np.array_equal(before, after):
        raise Violation(kind, f"{what} was modified in place by the call", t)


def check_divergence(case, env=None):
    g, ref, rng = _setup(case, env)
    t = _t(case)
    sc = _scale(case)
    div = darsia.FVDivergence(g).mat
    if div.shape != (ref.num_cells, ref.num_faces):
        raise Violation("div-shape", f"{div.shape}", t)
    got = div.toarray()
    want = ref.divergence()
    if not np.allclose(got, want, rtol=_rtol(case) * 4, atol=0):
        bad = np.argwhere(~np.isclose(got, want, rtol=_rtol(case) * 4, atol=0))[0]
        raise Violation("div-entry", f"entry {bad.tolist()}: {got[tuple(bad)]!r} vs net-outflow "
                        f"reference {want[tuple(bad)]!r}", t)
    # total divergence vanishes
    if ref.num_faces:
        cs = np.asarray(div.sum(axis=0)).ravel()
        if np.any(cs != 0.0):
            raise Violation("div-colsum", f"column sums not zero: max {np.abs(cs).max()!r}", t)
        u = rng.integers(-8, 9, size=ref.num_faces).astype(float) * sc
        u0 = u.copy()
        tot = float(np.sum(div.dot(u)))
        bound = 0.0 if _rtol(case) == 0.0 else 1e-13 * np.sum(np.abs(want) @ np.abs(u))
        if abs(tot) > bound:
            raise Violation("div-total", f"1^T div u = {tot!r}", t)
        # each cell: net outflow = sum over its faces of +-area*u
        net = want @ u
        if not np.allclose(div.dot(u), net, rtol=1e-13, atol=1e-13 * (np.abs(want) @ np.abs(u)).max()):
            raise Violation("div-apply", "div.dot(u) differs from net outflow", t)
        _unchanged("div-flux-mutated", "the face flux", u0, u, t)
    return Outcome(_nt(case), _key(case), _lab(case))


def check_adjoint(case, env=None):
    g, ref, rng = _setup(case, env)
    t = _t(case)
    sc = _scale(case)
    div = darsia.FVDivergence(g).mat
    p = rng.integers(-8, 9, size=ref.num_cells).astype(float) * sc
    got = div.T.dot(p)
    con = ref.connectivity()
    want = np.array([ref.face_area[d] * (p[con[f, 0]] - p[con[f, 1]])
                     for f, (d, _) in enumerate(ref.faces)]) if ref.num_faces else np.zeros(0)
    if got.shape != want.shape or not np.allclose(got, want, rtol=1e-14, atol=0):
        raise Violation("adjoint", "div^T p is not area*(p_lo - p_hi), i.e. minus the face difference", t)
    u = rng.integers(-8, 9, size=ref.num_faces).astype(float) * sc
    lhs = float(p @ div.dot(u))
    rhs = float(u @ got)
    # both sides are sums of products area * p * u that may cancel: rounding is relative to the
    # sum of the magnitudes, not to the (possibly tiny) result
    mag = float(np.abs(p) @ (np.abs(ref.divergence()) @ np.abs(u))) if ref.num_faces else 0.0
    if abs(lhs - rhs) > 1e-13 * mag:
        raise Violation("adjoint-identity", f"<p, div u> = {lhs!r} but <div^T p, u> = {rhs!r}", t)
    return Outcome(_nt(case), _key(case), _lab(case))


def _is_scaled_identity(mat, n, vol):
    """sparse comparison with vol x identity (n x n): every diagonal entry = vol (> 0), no entry elsewhere"""
    if mat.shape != (n, n) or not np.allclose(mat.diagonal(), vol * np.ones(n), rtol=4e-15, atol=0):
        return False
    if mat.nnz == n:  # n stored entries, n of them on the diagonal
        return True
    coo = mat.tocoo()
    return not np.any(coo.data[coo.row != coo.col] != 0.0)


def check_mass(case, env=None):
    g, ref, rng = _setup(case, env)
    t = _t(case)
    # call forms: explicit mode (positional / keyword) and the default mode, which is the one the only
    # caller (the Wasserstein discretisation) uses for the cell mass matrix
    for how, mc in (("positional", darsia.FVMass(g, "cells").mat), ("default", darsia.FVMass(g).mat)):
        if mc.shape != (ref.num_cells, ref.num_cells):
            raise Violation("mass-shape", f"cells ({how} mode) {mc.shape}", t)
        if not _is_scaled_identity(mc, ref.num_cells, ref.vol):
            raise Violation("mass-cells" if how == "positional" else "mass-cells:default-mode",
                            f"cell mass matrix ({how} mode) is not voxel volume x identity", t)
    # applied to a cell field: the integral of the field
    sc = _scale(case)
    q = rng.integers(-8, 9, size=ref.num_cells).astype(float) * sc
    got = darsia.FVMass(g).mat.dot(q)
    if got.shape != q.shape or not np.allclose(got, ref.vol * q, rtol=4e-15, atol=0):
        raise Violation("mass-apply", "cell mass matrix applied to a field is not volume x field", t)
    if ref.num_faces > 0:
        for how, mf in (("default", darsia.FVMass(g, "faces").mat), ("positional", darsia.FVMass(g, "faces", True).mat),
                        ("keyword", darsia.FVMass(g, mode="faces", lumping=True).mat)):
            if mf.shape != (ref.num_faces, ref.num_faces):
                raise Violation("mass-shape", f"faces ({how} lumping) {mf.shape}", t)
            if not _is_scaled_identity(mf, ref.num_faces, ref.vol):
                raise Violation("mass-faces", f"lumped face mass matrix ({how} lumping) is not voxel volume x "
                                "identity", t)
        # The consistent (non-lumped) face mass matrix is documented as not implemented. Should it become
        # available, the statement only promises the scaling by the voxel volume (not the lumped values).
        try:
            full = darsia.FVMass(g, "faces", lumping=False).mat
        except NotImplementedError:
            pass
        else:
            unit = darsia.FVMass(darsia.Grid(shape=tuple(ref.shape)), "faces", lumping=False).mat
            if full.shape != (ref.num_faces, ref.num_faces) or not np.allclose(
                    full.toarray(), ref.vol * unit.toarray(), rtol=1e-14, atol=0):
                raise Violation("mass-nolump", "non-lumped face mass matrix does not scale by the voxel volume", t)
    return Outcome(_nt(case), _key(case), _lab(case))


def _pts(case, rng, dim):
    pts = [np.full(dim, 0.5), np.zeros(dim), np.ones(dim)]
    for d in range(dim):
        p = np.full(dim, 0.5)
        p[d] = 0.0
        pts.append(p)
        q = np.full(dim, 0.5)
        q[d] = 1.0
        pts.append(q)
    pts.append(rng.random(dim))
    pts.append(rng.integers(0, 9, size=dim) / 8.0)
    if case.get("pt") is not None:
        pts.append(np.array(case["pt"], dtype=float))
    return pts


def _f2c_faces(ref):
    """(*shape, dim) tables: number of the lower / upper face of each cell along each axis, -1 on the
    outer boundary (triple loop over the independent face enumeration)"""
    lo_f = -np.ones((*ref.shape, ref.dim), dtype=int)
    hi_f = -np.ones((*ref.shape, ref.dim), dtype=int)
    for idx in np.ndindex(*ref.shape):
        for d in range(ref.dim):
            lo = list(idx)
            lo[d] -= 1
            lo_f[idx + (d,)] = ref.face_of(d, tuple(lo))
            hi_f[idx + (d,)] = ref.face_of(d, idx)
    return lo_f, hi_f


def _f2c_ref(tables, u, p):
    """component d of a cell: linear interpolation between the lower and the upper face of the cell along
    axis d (outer boundary faces carry no flux)"""
    lo_f, hi_f = tables
    ue = np.append(np.asarray(u, dtype=float), 0.0)  # index -1 -> 0.0
    p = np.asarray(p, dtype=float)
    return (1 - p) * ue[lo_f] + p * ue[hi_f]


def _pt_class(case):
    pt = case.get("pt")
    if pt is None:
        return "pt-fixed-set"
    if all(p in (0.0, 1.0) for p in pt):
        return "pt-corner"
    if all(p == 0.5 for p in pt):
        return "pt-centre"
    return "pt-on-face" if any(p in (0.0, 1.0) for p in pt) else "pt-inside"


def check_face_to_cell(case, env=None):
    g, ref, rng = _setup(case, env)
    t = _t(case)
    dim = ref.dim
    shape = ref.shape
    sc = _scale(case)
    u = rng.integers(-8, 9, size=ref.num_faces).astype(float) * sc
    u0 = u.copy()
    tol = dict(rtol=1e-14, atol=1e-14 * sc)
    tables = _f2c_faces(ref)
    # default point = centre = mean of the two opposite faces
    default = darsia.face_to_cell(g, u)
    n = 0
    for pt in [None] + _pts(case, rng, dim):
        forms = [("default", None)] if pt is None else [("array", pt.copy())]
        if pt is not None and dim == 1:
            # 1-D: a plain number (a Gauss point of quadrature.gauss_reference_cell(1, .)) as well as a
            # one-element array (a row of quadrature.reference_cell_corners(1)) - both reach face_to_cell
            forms = [("number", float(pt[0])), ("array", pt.copy())]
        p = np.full(dim, 0.5) if pt is None else pt
        want = _f2c_ref(tables, u, p)
        for how, arg in forms:
            got = default if pt is None else darsia.face_to_cell(g, u, pt=arg)
            if got.shape != (*shape, dim):
                raise Violation("f2c-shape", f"pt given as {how}: {got.shape}", t)
            n += 1
            if not np.allclose(got, want, **tol):
                bad = tuple(np.argwhere(~np.isclose(got, want, **tol))[0])
                raise Violation("f2c-value" if how != "array" or dim > 1 else "f2c-value:pt-array-1d",
                                f"pt={None if pt is None else p.tolist()} (given as {how}) cell/comp {bad}: "
                                f"{got[bad]!r} vs linear interpolation {want[bad]!r} (flux scale {sc!r})", t)
            if how == "array":
                _unchanged("f2c-point-mutated", "the evaluation point", pt, arg, t)
    # linear in the flux
    u2 = rng.integers(-8, 9, size=ref.num_faces).astype(float) * sc
    pt = _pts(case, rng, dim)[-1]
    arg = pt if dim > 1 else float(pt[0])
    a = darsia.face_to_cell(g, u, pt=arg)
    b = darsia.face_to_cell(g, u2, pt=arg)
    c = darsia.face_to_cell(g, 2 * u - 3 * u2, pt=arg)
    if not np.allclose(c, 2 * a - 3 * b, rtol=1e-13, atol=1e-13 * sc):
        raise Violation("f2c-linear", "face_to_cell is not linear in the flux", t)
    # integer-typed fluxes (tests/unit/test_fv.py feeds np.arange): same reconstruction
    if 0 <= int(case.get("sc", 0)) <= 40:
        ui = u.astype(np.int64)
        got = darsia.face_to_cell(g, ui, pt=arg)
        if got.shape != a.shape or not np.allclose(got, _f2c_ref(tables, u, pt), **tol):
            raise Violation("f2c-integer-flux", "reconstruction of an integer-typed face flux differs from the "
                            "linear interpolation of its values", t)
    # results handed out earlier stay what they were (the library evaluates at several quadrature points
    # of one grid and combines the results), the flux is only read
    if not np.allclose(default, _f2c_ref(tables, u0, np.full(dim, 0.5)), **tol):
        raise Violation("f2c-result-overwritten", "the cell flux returned by the first call changed during later "
                        "calls on the same grid", t)
    _unchanged("f2c-flux-mutated", "the face flux", u0, u, t)
    return Outcome(_nt(case), _key(case), _lab(case) + (_pt_class(case),), evals=n)


def _means(ref, con, comp, mode):
    want = np.zeros(ref.num_faces)
    for d in range(ref.dim):
        fs = ref.faces_per_axis[d]
        if len(fs) == 0:
            continue
        flat = np.asarray(comp[d], dtype=float).ravel("F")
        a, b = flat[con[fs, 0]], flat[con[fs, 1]]
        want[fs] = 0.5 * (a + b) if mode == "arithmetic" else 2.0 / (1.0 / a + 1.0 / b)
    return want


def check_cell_to_face(case, env=None):
    g, ref, rng = _setup(case, env)
    t = _t(case)
    dim = ref.dim
    shape = ref.shape
    con = ref.connectivity()
    sc = _scale(case)

    n = 0
    kept = []
    for kind in ("scalar", "scalar1", "vector", "tensor"):
        if kind == "vector" and dim == 1:
            continue  # (n,1) is the scalar1 layout
        for mode in ("arithmetic", "harmonic"):
            # harmonic mean: positive values; arithmetic mean: any sign, zeros included
            lo = 1 if mode == "harmonic" else -16
            if kind == "scalar":
                q = rng.integers(lo, 17, size=shape) / 4.0 * sc
                comp = [q] * dim
            elif kind == "scalar1":
                q = rng.integers(lo, 17, size=(*shape, 1)) / 4.0 * sc
                comp = [q[..., 0]] * dim
            elif kind == "vector":
                q = rng.integers(lo, 17, size=(*shape, dim)) / 4.0 * sc
                comp = [q[..., d] for d in range(dim)]
            else:
                q = rng.integers(lo, 17, size=(*shape, dim, dim)) / 4.0 * sc
                comp = [q[..., d, d] for d in range(dim)]
            q0 = q.copy()
            got = darsia.cell_to_face_average(g, q, mode)
            if got.shape != (ref.num_faces,):
                raise Violation("c2f-shape", f"{kind}/{mode}: {got.shape}", t)
            want = _means(ref, con, comp, mode)
            n += 1
            # relative to the magnitude of the data (a mean of +a and -a is 0: rounding is not)
            atol = 0.0 if mode == "harmonic" else 1e-15 * 4.0 * sc
            if not np.allclose(got, want, rtol=1e-13, atol=atol):
                bad = int(np.argwhere(~np.isclose(got, want, rtol=1e-13, atol=atol))[0][0])
                raise Violation("c2f-value", f"{kind}/{mode} face {bad}: {got[bad]!r} vs {want[bad]!r} "
                                f"(data scale {sc!r})", t)
            _unchanged("c2f-field-mutated", f"the {kind} cell field ({mode})", q0, q, t)
            kept.append((kind, mode, got, want, atol))
    # integer-typed cell fields (raw image data): same means as their float versions
    for dt in (np.uint8, np.uint16, np.int64):
        qi = rng.integers(1, 250, size=shape).astype(dt)
        for mode in ("arithmetic", "harmonic"):
            got = darsia.cell_to_face_average(g, qi, mode)
            want = _means(ref, con, [qi.astype(float)] * dim, mode)
            n += 1
            if got.shape != want.shape or not np.allclose(got, want, rtol=1e-13, atol=0):
                raise Violation("c2f-integer-field", f"{np.dtype(dt).name}/{mode}: face average of an integer-typed "
                                f"cell field differs from the mean of the two neighbours", t)
    try:
        darsia.cell_to_face_average(g, rng.random(shape) + 1, "geometric")
    except ValueError:
        pass
    else:
        raise Violation("c2f-mode", "unknown averaging mode accepted", t)
    # face values handed out earlier are still the means of their own field
    for kind, mode, got, want, atol in kept:
        if not np.allclose(got, want, rtol=1e-13, atol=atol):
            raise Violation("c2f-result-overwritten", f"the {kind}/{mode} face values changed during later calls "
                            "on the same grid", t)
    return Outcome(_nt(case), _key(case), _lab(case), evals=n)


def _tang_ref(ref, u):
    """(num_faces, dim): normal component = the face's own flux; tangential component dp = quarter of the
    sum over the existing faces of axis dp of both adjacent cells"""
    con = ref.connectivity()
    inv = {n: idx for idx, n in ref.cell_index.items()}
    out = np.zeros((ref.num_faces, ref.dim))
    for f, (d, _) in enumerate(ref.faces):
        out[f, d] = u[f]
        for dp in range(ref.dim):
            if dp == d:
                continue
            s = 0.0
            for cell in con[f]:
                idx = inv[int(cell)]
                lo = list(idx)
                lo[dp] -= 1
                for ff in (ref.face_of(dp, tuple(lo)), ref.face_of(dp, idx)):
                    if ff >= 0:
                        s += u[ff]
            out[f, dp] = 0.25 * s
    return out


def check_tangential(case, env=None):
    g, ref, rng = _setup(case, env)
    t = _t(case)
    dim = ref.dim
    sc = _scale(case)
    if ref.num_faces == 0:
        full = darsia.FVFullFaceReconstruction(g)(np.zeros(0))
        if full.shape != (0, dim):
            raise Violation("tang-shape", f"{full.shape}", t)
        return Outcome(False, _key(case), _lab(case))
    c = rng.integers(-8, 9, size=dim).astype(float) * sc
    u = np.zeros(ref.num_faces)
    for f, (d, _) in enumerate(ref.faces):
        u[f] = c[d]
    # one operator object, applied repeatedly (the caller builds it once and keeps it)
    recon = darsia.FVFullFaceReconstruction(g)
    full = recon(u)
    if full.shape != (ref.num_faces, dim):
        raise Violation("tang-shape", f"{full.shape}", t)
    for f, (d, _) in enumerate(ref.faces):
        if full[f, d] != u[f]:
            raise Violation("tang-normal", f"face {f}: normal component {full[f, d]!r} vs {u[f]!r}", t)
    n_int = 0
    for d in range(dim):
        for f in np.asarray(g.interior_faces[d]).ravel():
            n_int += 1
            if dim >= 2 and not np.allclose(full[f], c, rtol=0, atol=1e-14 * sc):
                raise Violation("tang-constant", f"interior face {f} (axis {d}): reconstructed "
                                f"{full[f].tolist()} for the constant field {c.tolist()}", t)
    full_const, full_const_then = full, full.copy()
    # general field: tangential component = quarter of the sum over the existing tangential
    # neighbour faces of both adjacent cells
    u = rng.integers(-8, 9, size=ref.num_faces).astype(float) * sc
    u0 = u.copy()
    full = recon(u)
    want = _tang_ref(ref, u)
    if full.shape != want.shape or np.abs(full - want).max() > 1e-13 * sc:
        f, dp = [int(k) for k in np.argwhere(np.abs(full - want) > 1e-13 * sc)[0]]
        raise Violation("tang-average" if dp != ref.faces[f][0] else "tang-normal",
                        f"face {f} (axis {ref.faces[f][0]}) component {dp}: {full[f, dp]!r} vs {want[f, dp]!r}", t)
    _unchanged("tang-flux-mutated", "the normal flux", u0, u, t)
    if not np.array_equal(full_const, full_const_then):
        raise Violation("tang-result-overwritten", "the reconstruction returned by the first application changed "
                        "when the operator was applied again", t)
    again = darsia.FVFullFaceReconstruction(g)(u)
    if not np.array_equal(again, full):
        raise Violation("tang-operator-state", "a kept reconstruction operator and a newly built one disagree", t)
    # the caller re-uses its flux buffer: the same array object, overwritten in place, is a new argument
    buf = np.random.default_rng([int(case["pseed"]), 77]).integers(-8, 9, size=ref.num_faces).astype(float) * sc
    want_buf = _tang_ref(ref, buf)
    for name, op in ((("full", recon), ("tangential", darsia.FVTangentialFaceReconstruction(g))) if dim >= 2
                     else (("full", recon),)):
        first = op(buf)
        buf[...] = -2.0 * buf + sc
        second = np.asarray(op(buf))
        fresh = np.asarray((darsia.FVFullFaceReconstruction(g) if name == "full"
                            else darsia.FVTangentialFaceReconstruction(g))(buf.copy()))
        if second.shape != fresh.shape or not np.array_equal(second, fresh):
            raise Violation("tang-stale-buffer", f"{name} reconstruction applied to a flux array that was overwritten "
                            "in place since the previous application returns something else than a new operator on "
                            "a copy of the array", t)
        buf[...] = (buf - sc) / -2.0
    if np.abs(np.asarray(recon(buf)) - want_buf).max() > 1e-13 * sc:
        raise Violation("tang-stale-buffer", "full reconstruction of a re-used flux buffer differs from the reference", t)
    if 0 <= int(case.get("sc", 0)) <= 40:
        # integer-typed normal fluxes (tests/unit/test_fv.py feeds np.arange)
        gi = recon(u.astype(np.int64))
        if gi.shape != want.shape or np.abs(gi - want).max() > 1e-13 * sc:
            raise Violation("tang-integer-flux", "reconstruction of an integer-typed normal flux differs", t)
    if dim >= 2:
        # the tangential operator on its own: one array per tangential direction (the remaining axes in
        # increasing order), or their concatenation (the default); .mat are the matrices behind it
        tang = darsia.FVTangentialFaceReconstruction(g)
        parts = tang(u, concatenate=False)
        if len(parts) != dim - 1 or any(np.shape(p) != (ref.num_faces,) for p in parts):
            raise Violation("tang-direct-shape", f"{[np.shape(p) for p in parts]}", t)
        for f, (d, _) in enumerate(ref.faces):
            for i, dp in enumerate([a for a in range(dim) if a != d]):
                if abs(parts[i][f] - want[f, dp]) > 1e-13 * sc:
                    raise Violation("tang-direct", f"face {f} (axis {d}), tangential direction {i} (axis {dp}): "
                                    f"{parts[i][f]!r} vs {want[f, dp]!r}", t)
        cat = tang(u)
        if np.shape(cat) != ((dim - 1) * ref.num_faces,) or not np.array_equal(cat, np.concatenate(parts)):
            raise Violation("tang-direct-concatenate", f"default call returns shape {np.shape(cat)}, not the "
                            "concatenation of the tangential directions", t)
        if len(tang.mat) != dim - 1:
            raise Violation("tang-direct-shape", f"{len(tang.mat)} matrices", t)
        for i, m in enumerate(tang.mat):
            if m.shape != (ref.num_faces, ref.num_faces) or not np.array_equal(m.dot(u), parts[i]):
                raise Violation("tang-direct-matrix", f"matrix {i} applied to the flux differs from the call", t)
            rs = np.asarray(m.sum(axis=1)).ravel()
            for d in range(dim):
                fi = np.asarray(g.interior_faces[d]).ravel()
                if np.any(rs[fi] != 1.0):
                    raise Violation("tang-constant", f"matrix {i}: rows of interior faces of axis {d} do not sum "
                                    "to one", t)
        _unchanged("tang-flux-mutated", "the normal flux", u0, u, t)
    return Outcome(dim >= 2 and n_int > 0, _key(case), _lab(case))


# ---- one grid object shared by all operators (as in the Wasserstein discretisation) ----

_GRID_ATTRS = ("dim", "shape", "voxel_size", "face_vol", "num_cells", "num_faces", "num_faces_per_axis",
               "faces_shape", "faces", "face_index", "interior_faces", "exterior_faces", "cell_index",
               "cell_corners", "connectivity", "reverse_connectivity", "cell_corner_indices")


def _same(a, b):
    if isinstance(a, (list, tuple)):
        return isinstance(b, (list, tuple)) and len(a) == len(b) and all(_same(x, y) for x, y in zip(a, b))
    a, b = np.asarray(a), np.asarray(b)
    return a.shape == b.shape and a.dtype == b.dtype and np.array_equal(a, b)


def check_shared_grid(case):
    """All operators of one discretisation are built from ONE grid object, in any order and repeatedly:
    every law holds for every step of such a sequence, matrices built earlier keep their values and the
    grid's tables are only read."""
    g, vox = _make_grid(case)
    ref = RefGrid(case["shape"], vox)
    t = _t(case)
    before = {a: copy.deepcopy(getattr(g, a)) for a in _GRID_ATTRS}
    div0 = darsia.FVDivergence(g).mat
    mass0 = darsia.FVMass(g).mat
    laws = dict(_LAWS)
    n = 0
    for k, op in enumerate(list(case["ops"]) + ["divergence_is_net_outflow"]):
        env = (g, ref, np.random.default_rng([int(case["pseed"]), k]))
        try:
            laws[op](case, env)
        except Violation as v:
            raise Violation("shared-grid:" + v.kind, f"step {k} ({op}) of {case['ops']}: {v.message}",
                            dict(v.tags, step=k))
        n += 1
        for a in _GRID_ATTRS:
            if not _same(before[a], getattr(g, a)):
                raise Violation("shared-grid:grid-modified", f"grid.{a} changed during step {k} ({op}) of "
                                f"{case['ops']}", t)
    if not np.allclose(div0.toarray(), ref.divergence(), rtol=_rtol(case) * 4, atol=0):
        raise Violation("shared-grid:matrix-changed", "the divergence matrix built first changed afterwards", t)
    if not _is_scaled_identity(mass0, ref.num_cells, ref.vol):
        raise Violation("shared-grid:matrix-changed", "the cell mass matrix built first changed afterwards", t)
    return Outcome(_nt(case) and len(set(case["ops"])) >= 2, _key(case),
                   _lab(case) + (f"ops{min(len(case['ops']), 6)}",), evals=n)


_LAWS = [
    ("divergence_is_net_outflow", check_divergence),
    ("neg_adjoint", check_adjoint),
    ("mass_matrices", check_mass),
    ("face_to_cell_linear", check_face_to_cell),
    ("cell_to_face_mean", check_cell_to_face),
    ("tangential_reconstruction", check_tangential),
]
_LAW_NAMES = [name for name, _ in _LAWS]


def enum_shared(tier):
    """one grid per shape, the constructor forms / voxel classes / magnitudes of enum_cases in turn, the six
    laws in a rotating order"""
    by_shape = {}
    for c in enum_cases(tier):
        by_shape.setdefault(tuple(c["shape"]), []).append(c)
    out = []
    for i, variants in enumerate(by_shape.values()):
        r = i % len(_LAW_NAMES)
        out.append(dict(variants[i % len(variants)], ops=_LAW_NAMES[r:] + _LAW_NAMES[:r]))
    return out


def gen_shared(tier):
    base = gen_cases(tier)

    @st.composite
    def strat(draw):
        c = dict(draw(base))
        c["ops"] = draw(st.lists(st.sampled_from(_LAW_NAMES), min_size=2, max_size=7))
        return c

    return strat()


_RULE = ("exhaustive part: every shape in the C07 range x {unit, power-of-two anisotropic, generic} "
         "voxel sizes (list / scalar / omitted / image-derived grid) with integer-valued random face fluxes / "
         "cell fields times a power of two (exact arithmetic, magnitudes 2^-40 .. 2^33); random "
         "part: Hypothesis-drawn shapes, voxel sizes, constructor forms, data magnitudes and evaluation "
         "points; shared grid: operator sequences on one grid object; non-trivial = at least "
         "one axis with >= 2 cells (faces exist); tangential law: dim >= 2 with interior faces; "
         "distinct = (shape, voxel sizes, constructor form, payload seed, magnitude, point, sequence)")
_SH = {"quick": 3, "thorough": 6}
_N = {"quick": 300, "thorough": 5000}
_RS = {"quick": 1, "thorough": 4}


def _subs():
    out = []
    for name, fn in _LAWS:
        out.append(Sub(name, fn, enum=enum_cases, exhaustive=True, shards=_SH))
    out.append(Sub("shared_grid_sequence", check_shared_grid, enum=enum_shared, exhaustive=True, shards=_SH))
    for name, fn in _LAWS:
        # tangential law: interior faces need dim >= 2 and few single-cell axes (1-D: exhaustive part)
        gen = gen_cases if fn is not check_tangential else (lambda tier: gen_cases(tier, (2, 3), False))
        out.append(Sub(name + "_random", fn, gen=gen, n=_N, shards=_RS))
    out.append(Sub("shared_grid_sequence_random", check_shared_grid, gen=gen_shared,
                   n={"quick": 100, "thorough": 1500}, shards=_RS))
    return out


PROP = Prop(
    pid="C06",
    rule=_RULE,
    assumptions=["RefGrid incidence (independent enumeration) is the reference",
                 "integer-valued payloads times a power of two: exact for unit / power-of-two / integer voxel "
                 "sizes, 1e-13 relative to the data magnitude otherwise"],
    subs=_subs(),
)
