"""C20 - matrix (i, j, k) <-> Cartesian (x, y, z) axis conventions are coherent in every dimension.

The arbiter of "which Cartesian axis is which matrix axis, and is it reversed" is the coordinate
system (``vf.oracles.AXES`` spells that convention and C01 holds the coordinate system to it):
2-D x<->j, y<->i reversed; 3-D x<->j, y<->k reversed, z<->i reversed; 1-D x<->i.
"""
import itertools

import numpy as np
from hypothesis import strategies as st

import darsia
from vf import gens
from vf.oracles import AXES, RefCS
from vf.runner import HarnessError, Outcome, Prop, Sub, Violation

XYZ = "xyz"
IJK = "ijk"


# ---------------------------------------------------------------------------------------
# calling the table helpers: a refusal of a (dimension, axis) the property quantifies over is
# a violation with its own kind, not a crash bucket named after the exception type
# ---------------------------------------------------------------------------------------


def _to_matrix(axis, d, tags):
    try:
        r = darsia.to_matrix_indexing(axis, XYZ[:d])
    except (AssertionError, ValueError) as e:
        raise Violation(f"rejects:to_matrix_indexing:dim{d}",
                        f"to_matrix_indexing({axis!r}, {XYZ[:d]!r}) raised {type(e).__name__}({e})",
                        tags)
    if not (isinstance(r, str) and len(r) == 1 and r in IJK[:d]):
        raise Violation(f"return:to_matrix_indexing:dim{d}",
                        f"to_matrix_indexing({axis!r}, {XYZ[:d]!r}) returned {r!r}", tags)
    return r


def _to_cartesian(axis, d, tags):
    try:
        r = darsia.to_cartesian_indexing(axis, IJK[:d])
    except (AssertionError, ValueError) as e:
        raise Violation(f"rejects:to_cartesian_indexing:dim{d}",
                        f"to_cartesian_indexing({axis!r}, {IJK[:d]!r}) raised {type(e).__name__}({e})",
                        tags)
    if not (isinstance(r, str) and len(r) == 1 and r in XYZ[:d]):
        raise Violation(f"return:to_cartesian_indexing:dim{d}",
                        f"to_cartesian_indexing({axis!r}, {IJK[:d]!r}) returned {r!r}", tags)
    return r


def _interpret(axis, indexing, tags):
    r = darsia.interpret_indexing(axis, indexing)
    d = len(indexing)
    if not (isinstance(r, tuple) and len(r) == 2 and isinstance(r[0], (int, np.integer))
            and isinstance(r[1], (bool, np.bool_)) and 0 <= r[0] < d):
        raise Violation(f"return:interpret_indexing:dim{d}",
                        f"interpret_indexing({axis!r}, {indexing!r}) returned {r!r}", tags)
    return int(r[0]), bool(r[1])


def _form(letter, letters, form):
    return letter if form == "str" else letters.index(letter)


# ---------------------------------------------------------------------------------------
# 1. tables_agree (exhaustive)
# ---------------------------------------------------------------------------------------


def enum_tables(tier):
    out = []
    for d in (1, 2, 3):
        for direction, letters in (("c2m", XYZ), ("m2c", IJK)):
            for a in letters[:d]:
                for form in ("str", "int"):
                    out.append({"dim": d, "direction": direction, "axis": a, "form": form})
    return out


def _tags(case):
    return {k: case[k] for k in ("dim", "direction", "axis", "form") if k in case}


def check_tables_agree(case):
    d, direction, a, form = case["dim"], case["direction"], case["axis"], case["form"]
    t = _tags(case)
    if direction == "c2m":
        c = XYZ.index(a)
        m, rev = _interpret(a, IJK[:d], t)
        # the two directions of interpret_indexing describe the same pairing, same flag
        c2, rev2 = _interpret(IJK[m], XYZ[:d], t)
        if c2 != c or rev2 != rev:
            raise Violation(f"interpret-directions:dim{d}",
                            f"interpret_indexing({a!r},{IJK[:d]!r}) = {(m, rev)} but "
                            f"interpret_indexing({IJK[m]!r},{XYZ[:d]!r}) = {(c2, rev2)}", t)
        # ... and it is the convention of the coordinate system
        if (m, -1 if rev else 1) != tuple(AXES[d][c]):
            raise Violation(f"interpret-vs-convention:dim{d}",
                            f"interpret_indexing({a!r},{IJK[:d]!r}) = {(m, rev)}; coordinate "
                            f"system convention (matrix axis, sign) = {AXES[d][c]}", t)
        got = _to_matrix(_form(a, XYZ, form), d, t)
        if got != IJK[m]:
            raise Violation(f"disagree:to_matrix_indexing:dim{d}",
                            f"to_matrix_indexing({_form(a, XYZ, form)!r},{XYZ[:d]!r}) = {got!r} but "
                            f"interpret_indexing / the coordinate system pair {a} with {IJK[m]}", t)
    else:
        m = IJK.index(a)
        c, rev = _interpret(a, XYZ[:d], t)
        m2, rev2 = _interpret(XYZ[c], IJK[:d], t)
        if m2 != m or rev2 != rev:
            raise Violation(f"interpret-directions:dim{d}",
                            f"interpret_indexing({a!r},{XYZ[:d]!r}) = {(c, rev)} but "
                            f"interpret_indexing({XYZ[c]!r},{IJK[:d]!r}) = {(m2, rev2)}", t)
        if (m, -1 if rev else 1) != tuple(AXES[d][c]):
            raise Violation(f"interpret-vs-convention:dim{d}",
                            f"interpret_indexing({a!r},{XYZ[:d]!r}) = {(c, rev)}; coordinate "
                            f"system convention for {XYZ[c]}: (matrix axis, sign) = {AXES[d][c]}", t)
        got = _to_cartesian(_form(a, IJK, form), d, t)
        if got != XYZ[c]:
            raise Violation(f"disagree:to_cartesian_indexing:dim{d}",
                            f"to_cartesian_indexing({_form(a, IJK, form)!r},{IJK[:d]!r}) = {got!r} but "
                            f"interpret_indexing / the coordinate system pair {a} with {XYZ[c]}", t)
    # same-family rows are the identity without reversal
    fam = XYZ if direction == "c2m" else IJK
    p, r = _interpret(a, fam[:d], t)
    if p != fam.index(a) or r:
        raise Violation(f"interpret-identity:dim{d}",
                        f"interpret_indexing({a!r},{fam[:d]!r}) = {(p, r)}", t)
    return Outcome(nontrivial=d != 2, key=case, labels=(f"dim{d}", direction, form), evals=3)


def enum_invalid(tier):
    out = []
    for d in (1, 2, 3):
        for indexing in (XYZ[:d], IJK[:d]):
            bad = [a for a in XYZ + IJK if a not in XYZ[:d] + IJK[:d]] + ["t", "", "xy"]
            for a in bad:
                out.append({"axis": a, "indexing": indexing})
    for indexing in ("", "ji", "yx", "xz", "ijkl", "xyzt", "jk"):
        out.append({"axis": "x", "indexing": indexing})
        out.append({"axis": "i", "indexing": indexing})
    return out


def check_invalid_rejected(case):
    """interpret_indexing documents ``Raises: ValueError`` for unsupported combinations."""
    try:
        r = darsia.interpret_indexing(case["axis"], case["indexing"])
    except ValueError:
        return Outcome(nontrivial=True, key=case, labels=("rejected-as-documented",))
    raise Violation("accepted-invalid", f"interpret_indexing({case['axis']!r}, "
                    f"{case['indexing']!r}) returned {r!r} instead of raising ValueError", dict(case))


# ---------------------------------------------------------------------------------------
# 2. roundtrip (exhaustive)
# ---------------------------------------------------------------------------------------


def check_roundtrip(case):
    d, direction, a, form = case["dim"], case["direction"], case["axis"], case["form"]
    t = _tags(case)
    if direction == "c2m":
        mid = _to_matrix(_form(a, XYZ, form), d, t)
        back = _to_cartesian(_form(mid, IJK, form), d, t)
    else:
        mid = _to_cartesian(_form(a, IJK, form), d, t)
        back = _to_matrix(_form(mid, XYZ, form), d, t)
    if back != a:
        raise Violation(f"roundtrip:dim{d}", f"{a} -> {mid} -> {back}", t)
    return Outcome(nontrivial=d != 2, key=case, labels=(f"dim{d}", direction, form))


# ---------------------------------------------------------------------------------------
# 3. agrees_with_coordinate_system
# ---------------------------------------------------------------------------------------


def gen_geometry(tier):
    return st.fixed_dictionaries({
        "img": gens.image_specs(dims=(1, 2, 3), max_extent={1: 12, 2: 7, 3: 5},
                                dtypes=("float64",), payloads=("scalar",), series=(False,),
                                times=("none",)),
        "vseed": st.integers(0, 2**16),
    })


def check_agrees_with_cs(case):
    spec = case["img"]
    d = spec["dim"]
    img = gens.build_image(spec)
    cs = img.coordinatesystem
    ref = RefCS(d, spec["shape"], spec["dimensions"], spec["origin"])
    rng = np.random.default_rng(case["vseed"])
    base = np.array([int(rng.integers(-2, n + 2)) for n in spec["shape"]], dtype=int)
    x0 = np.asarray(cs.coordinate(base), dtype=float)
    t = {"dim": d, "origin": "user" if spec["origin"] is not None else "default"}
    pairs = []
    for m in range(d):
        e = np.zeros(d, dtype=int)
        e[m] = 1
        step = np.asarray(cs.coordinate(base + e), dtype=float) - x0
        moved = [c for c in range(d) if step[c] != 0.0]
        if len(moved) != 1:
            raise Violation("step-axes", f"a unit step on matrix axis {m} moved Cartesian axes "
                            f"{moved} (step {step.tolist()})", t)
        c = moved[0]
        rev = bool(step[c] < 0)
        pairs.append((m, c, rev))
        tt = dict(t, maxis=m)
        # tables, both directions, must name exactly what the coordinate system does
        c1, rev1 = _interpret(IJK[m], XYZ[:d], tt)
        if (c1, rev1) != (c, rev):
            raise Violation(f"interpret-vs-cs:dim{d}",
                            f"a unit step on matrix axis {IJK[m]} moves {XYZ[c]} "
                            f"{'backwards' if rev else 'forwards'} in the coordinate system, "
                            f"interpret_indexing({IJK[m]!r},{XYZ[:d]!r}) = {(c1, rev1)}", tt)
        m2, rev2 = _interpret(XYZ[c], IJK[:d], tt)
        if (m2, rev2) != (m, rev):
            raise Violation(f"interpret-vs-cs:dim{d}",
                            f"coordinate system: {XYZ[c]} <-> {IJK[m]} reversed={rev}; "
                            f"interpret_indexing({XYZ[c]!r},{IJK[:d]!r}) = {(m2, rev2)}", tt)
        if (m, -1 if rev else 1) != tuple(AXES[d][c]):
            raise Violation(f"cs-vs-convention:dim{d}", f"coordinate system pairs {XYZ[c]} with "
                            f"{IJK[m]} (reversed={rev}); documented convention {AXES[d][c]}", tt)
        # size of the step = voxel size the coordinate system files under that Cartesian name
        h = float(cs.voxel_size[XYZ[c]])
        if h != float(img.voxel_size[m]):
            raise Violation(f"voxel-size-name:dim{d}", f"coordinatesystem.voxel_size[{XYZ[c]!r}] = "
                            f"{h!r} but the voxel size of matrix axis {m} is {img.voxel_size[m]!r}", tt)
        tol = 8 * np.finfo(float).eps * (abs(ref.origin[c]) + (abs(base[m]) + 2) * ref.h[m])
        if abs(abs(step[c]) - ref.h[m]) > tol:
            raise Violation(f"step-size:dim{d}", f"step {step[c]!r} vs voxel size {ref.h[m]!r}", tt)
        # length <-> voxel-count conversion addressed by the Cartesian name uses that voxel size
        if float(cs.length(3, XYZ[c])) != 3 * h:
            raise Violation(f"length-name:dim{d}", f"coordinatesystem.length(3, {XYZ[c]!r}) = "
                            f"{cs.length(3, XYZ[c])!r}, voxel size {h!r}", tt)
    # second pass (after the coordinate system and interpret_indexing were compared on every
    # axis): the single-axis translation helpers
    for m, c, rev in pairs:
        tt = dict(t, maxis=m)
        got = _to_cartesian(m, d, tt)
        if got != XYZ[c]:
            raise Violation(f"disagree:to_cartesian_indexing:dim{d}",
                            f"a unit step on matrix axis {IJK[m]} moves {XYZ[c]} in the coordinate "
                            f"system, to_cartesian_indexing({m},{IJK[:d]!r}) = {got!r}", tt)
        got = _to_matrix(XYZ[c], d, tt)
        if got != IJK[m]:
            raise Violation(f"disagree:to_matrix_indexing:dim{d}",
                            f"the coordinate system pairs {XYZ[c]} with {IJK[m]}, "
                            f"to_matrix_indexing({XYZ[c]!r},{XYZ[:d]!r}) = {got!r}", tt)
    return Outcome(nontrivial=d != 2, key=[d, spec["shape"], spec["dimensions"], spec["origin"],
                                          base.tolist()],
                   labels=(f"dim{d}", "origin-" + t["origin"]), evals=d)


# ---------------------------------------------------------------------------------------
# 4. name_equals_index  (reduction / slicing)
# ---------------------------------------------------------------------------------------


def gen_named(tier):
    @st.composite
    def strat(draw):
        spec = draw(gens.image_specs(dims=(2, 3), max_extent={2: 8, 3: 5}, dtypes=("float64",),
                                     max_nt=3, max_comp=3))
        d = spec["dim"]
        c = draw(st.integers(0, d - 1))
        return {
            "img": spec,
            "caxis": c,
            "mode": draw(st.sampled_from(["sum", "average", "slice"])),
            "vfrac": draw(st.integers(0, 10**6)),  # -> voxel index along the axis
            "t": draw(st.sampled_from([0.5, 0.25, 0.75, draw(st.floats(0.1, 0.9))])),
        }

    return strat()


def _named_setup(case):
    spec = case["img"]
    d = spec["dim"]
    c = case["caxis"]
    m, sgn = AXES[d][c]
    n = spec["shape"][m]
    v = case["vfrac"] % n
    return spec, d, c, m, sgn, n, v


def _labels_named(spec, c, extra=()):
    return (f"dim{spec['dim']}", f"axis-{XYZ[c]}",
            f"payload-{spec['payload']}{'-series' if spec['series'] else ''}",
            "origin-user" if spec["origin"] is not None else "origin-default") + tuple(extra)


def _distinct_extents(shape):
    return len(set(shape)) == len(shape)


def _kwtxt(kw):
    return "".join(f", {k}={v!r}" for k, v in kw.items())


def _reduce(img, axis, mode, kw, d, tags):
    """reduce_axis on an input of its domain (valid axis, valid layer index of that axis)."""
    try:
        return darsia.reduce_axis(img, axis, mode, **kw)
    except IndexError as e:
        raise Violation(f"reduce-fails:{mode}:dim{d}",
                        f"reduce_axis(img, {axis!r}, {mode!r}{_kwtxt(kw)}) on an image of shape "
                        f"{list(img.img.shape)} raised IndexError({e}) although the index is a "
                        f"valid layer of the addressed axis", tags)


def _reduced_along(arr, mm, mode, kw, got):
    """diagnostics only: is ``got`` the reduction of ``arr`` along matrix axis ``mm``?"""
    if mode == "slice":
        if kw["slice_idx"] >= arr.shape[mm]:
            return False
        w = np.take(arr, kw["slice_idx"], axis=mm)
    else:
        w = np.sum(arr, axis=mm)
        if mode == "average":
            w = w / arr.shape[mm]
    return w.shape == got.shape and np.array_equal(w, got)


def check_name_equals_index_reduce(case):
    spec, d, c, m, sgn, n, v = _named_setup(case)
    mode = case["mode"]
    # mode "slice": any layer of the addressed axis (a valid index there; on an image with
    # distinct extents it need not be a valid index on the other axes)
    kw = {"slice_idx": v} if mode == "slice" else {}
    t = {"dim": d, "axis": XYZ[c], "mode": mode}
    by_name_obj = darsia.AxisReduction(XYZ[c], d, mode, **kw)
    by_index_obj = darsia.AxisReduction(m, d, mode, **kw)
    if (by_name_obj.index, by_name_obj.axis) != (by_index_obj.index, by_index_obj.axis):
        raise Violation(f"reduction-axis:dim{d}",
                        f"AxisReduction({XYZ[c]!r}) resolves to (matrix {by_name_obj.index}, "
                        f"Cartesian {by_name_obj.axis}); AxisReduction({m}) to (matrix "
                        f"{by_index_obj.index}, Cartesian {by_index_obj.axis}); the coordinate "
                        f"system pairs {XYZ[c]} with matrix axis {m}", t)
    if (by_name_obj.index, by_name_obj.axis) != (m, c):
        raise Violation(f"reduction-axis:dim{d}",
                        f"AxisReduction resolves {XYZ[c]!r} / {m} to (matrix {by_name_obj.index}, "
                        f"Cartesian {by_name_obj.axis}), coordinate system says ({m}, {c})", t)
    src = gens.build_image(spec)
    arr = np.array(src.img, copy=True)
    dims_in = [float(x) for x in src.dimensions]
    a = gens.snapshot(_reduce(src, XYZ[c], mode, kw, d, t))
    b = gens.snapshot(_reduce(gens.build_image(spec), m, mode, kw, d, t))
    ok, why = gens.snapshot_equal(a, b)
    if not ok:
        raise Violation(f"reduce-name-vs-index:dim{d}",
                        f"reduce_axis(img, {XYZ[c]!r}, {mode!r}) differs from reduce_axis(img, {m}, "
                        f"{mode!r}): {why}", t)
    # the axis the object resolved is also the axis the reduction *acts on*: the data are the
    # numpy reduction of the array along the matrix axis the coordinate system pairs with the
    # addressed Cartesian axis (same float operations as a reduction along one axis performs:
    # one sum, one division by the voxel count, or one layer), whatever the mode
    if mode == "slice":
        want = np.take(arr, kw["slice_idx"], axis=m)
    else:
        want = np.sum(arr, axis=m)
        if mode == "average":
            want = want / arr.shape[m]
    for how, got in ((repr(XYZ[c]), a), (repr(m), b)):
        g = np.asarray(got["img"])
        if g.shape != want.shape or not np.array_equal(g, want):
            other = [mm for mm in range(d) if mm != m and _reduced_along(arr, mm, mode, kw, g)]
            raise Violation(f"reduce-acts-on-other-axis:{mode}:dim{d}",
                            f"reduce_axis(img, {how}, {mode!r}{_kwtxt(kw)}).img (shape {list(g.shape)}) "
                            f"is not the {mode} of the array (shape {list(arr.shape)}) along matrix "
                            f"axis {m}, the axis the coordinate system pairs with {XYZ[c]}"
                            + (f"; it is the {mode} along matrix axis {other[0]}" if other else ""),
                            dict(t, addressed="name" if how.startswith("'") else "index"))
    # ... and the extent that disappears from the metadata is the extent of that matrix axis
    want_dims = dims_in[:m] + dims_in[m + 1:]
    for how, got_img in ((repr(XYZ[c]), a), (repr(m), b)):
        got_dims = [float(x) for x in got_img["meta"]["dimensions"]]
        if got_dims != want_dims:
            raise Violation(f"reduce-drops-other-extent:dim{d}",
                            f"reduce_axis(img, {how}, {mode!r}{_kwtxt(kw)}).dimensions = {got_dims}; "
                            f"dimensions {dims_in} without matrix axis {m} are {want_dims}", t)
    # slicing and reduction address the same layer: mode "slice" at index n along an axis holds
    # the data of Image.slice(n, <matrix index of that axis>)
    if mode == "slice":
        ref_img = np.asarray(gens.build_image(spec).slice(kw["slice_idx"], m).img)
        g = np.asarray(a["img"])
        if g.shape != ref_img.shape or not np.array_equal(g, ref_img):
            raise Violation(f"reduce-slice-vs-image-slice:dim{d}",
                            f"reduce_axis(img, {XYZ[c]!r}, 'slice', slice_idx={kw['slice_idx']}).img "
                            f"differs from img.slice({kw['slice_idx']}, {m}).img", t)
    extra = [f"mode-{mode}"]
    if mode == "slice":
        extra.append("slice-layer-" + ("only" if n == 1 else "first" if v == 0 else
                                        "last" if v == n - 1 else "interior"))
        extra.append("slice-idx-" + ("valid-on-every-axis" if v < min(spec["shape"])
                                     else "valid-on-addressed-axis-only"))
    return Outcome(nontrivial=d == 3 or _distinct_extents(spec["shape"]),
                   key=[spec["shape"], spec["dimensions"], spec["origin"], spec["payload"],
                        spec["series"], c, mode, v, spec["pseed"]],
                   labels=_labels_named(spec, c, extra))


def check_name_equals_index_slice(case):
    spec, d, c, m, sgn, n, v = _named_setup(case)
    t = {"dim": d, "axis": XYZ[c]}
    ref = RefCS(d, spec["shape"], spec["dimensions"], spec["origin"])
    # a coordinate strictly inside voxel layer v of matrix axis m (never on a face)
    pos = np.zeros(d)
    pos[m] = v + case["t"]
    coord = float(ref.coordinate(pos)[c])
    margin = 64 * np.finfo(float).eps * (abs(coord) + abs(ref.origin[c]) + ref.h[m]) / ref.h[m]
    if margin >= 0.05:
        return Outcome(nontrivial=False, key=None, status="skipped")
    img = gens.build_image(spec)
    arr = img.img.copy()
    by_index = gens.snapshot(img.slice(v, m))
    want = np.take(arr, v, axis=m)
    if by_index["img"].shape != want.shape or not np.array_equal(by_index["img"], want):
        raise Violation(f"slice-index-data:dim{d}", f"img.slice({v}, {m}).img is not the array "
                        f"layer {v} of axis {m}", t)
    img2 = gens.build_image(spec)
    try:
        by_name_img = img2.slice(coord, XYZ[c])
    except (AssertionError, IndexError, ValueError) as e:
        raise Violation(f"slice-by-name-fails:dim{d}",
                        f"img.slice({coord!r}, {XYZ[c]!r}) raised {type(e).__name__}({e}); "
                        f"img.slice({v}, {m}) works", t)
    by_name = gens.snapshot(by_name_img)
    ok, why = gens.snapshot_equal(by_name, by_index)
    if not ok:
        raise Violation(f"slice-name-vs-index:dim{d}",
                        f"img.slice({coord!r}, {XYZ[c]!r}) differs from img.slice({v}, {m}) although "
                        f"the coordinate lies in voxel layer {v} of matrix axis {m}: {why}", t)
    # the same with integer-typed metadata (dimensions / origin given as Python ints, as in
    # Image(arr, dimensions=[2, 3, 4])): the cut coordinate stays a float
    ints_ok = all(float(x).is_integer() for x in spec["dimensions"]) and (
        spec["origin"] is None or all(float(x).is_integer() for x in spec["origin"]))
    if ints_ok:
        spec_i = dict(spec, dimensions=[int(x) for x in spec["dimensions"]],
                      origin=None if spec["origin"] is None else [int(x) for x in spec["origin"]])
        img3 = gens.build_image(spec_i)
        try:
            got_i = np.asarray(img3.slice(coord, XYZ[c]).img)
        except (AssertionError, IndexError, ValueError) as e:
            raise Violation(f"slice-by-name-fails:int-metadata:dim{d}", f"integer-typed dimensions/origin: "
                            f"img.slice({coord!r}, {XYZ[c]!r}) raised {type(e).__name__}({e})", t)
        if got_i.shape != want.shape or not np.array_equal(got_i, want):
            raise Violation(f"slice-name-vs-index:int-metadata:dim{d}", f"integer-typed dimensions/origin: "
                            f"img.slice({coord!r}, {XYZ[c]!r}) is not layer {v} of matrix axis {m}", t)
    return Outcome(nontrivial=d == 3 or _distinct_extents(spec["shape"]),
                   key=[spec["shape"], spec["dimensions"], spec["origin"], spec["payload"],
                        spec["series"], c, v, case["t"], spec["pseed"]],
                   labels=_labels_named(spec, c))


# ---------------------------------------------------------------------------------------
# 5./6. layout helpers
# ---------------------------------------------------------------------------------------


def gen_layout(tier, dims=(1, 2, 3)):
    @st.composite
    def strat(draw):
        d = draw(st.sampled_from(list(dims)))
        mx = {1: 12, 2: 7, 3: 5}[d]
        if draw(st.integers(0, 2)) > 0 and d > 1:
            shape = draw(st.permutations(list(range(1, mx + 1))))[:d]  # distinct extents
        else:
            shape = draw(gens.shapes(d, mx))
        vox = draw(gens.voxel_sizes(d, "pow2"))
        okind = draw(st.sampled_from(["default", "user"]))
        origin = None
        if okind == "user":
            origin = [float(draw(st.integers(-50, 50)) * vox[AXES[d][c][0]]) for c in range(d)]
        trailing = draw(st.lists(st.integers(1, 3), min_size=0, max_size=2))
        return {"dim": d, "shape": list(shape), "vox": vox, "origin": origin,
                "trailing": trailing, "pseed": draw(st.integers(0, 2**16))}

    return strat()


def _payload(case):
    full = list(case["shape"]) + list(case["trailing"])
    rng = np.random.default_rng(case["pseed"])
    return rng.permutation(int(np.prod(full))).astype(float).reshape(full)  # all entries distinct


def _layout_labels(case):
    return (f"dim{case['dim']}", f"trailing{len(case['trailing'])}",
            "distinct-extents" if _distinct_extents(case["shape"]) else "repeated-extents",
            "origin-user" if case["origin"] is not None else "origin-default")


def check_layout_placement(case):
    d, shape = case["dim"], case["shape"]
    t = {"dim": d, "trailing": len(case["trailing"])}
    arr = _payload(case)
    dims = [shape[i] * case["vox"][i] for i in range(d)]
    kw = {"space_dim": d, "dimensions": list(dims), "scalar": True}
    if case["origin"] is not None:
        kw["origin"] = list(case["origin"])
    host = darsia.Image(np.zeros(shape), **kw)
    cs = host.coordinatesystem
    before = arr.copy()
    out = darsia.matrixToCartesianIndexing(arr, d)
    if not np.array_equal(arr, before):
        raise Violation("layout-mutates-input", "matrixToCartesianIndexing changed its argument", t)
    if d == 2:
        dflt = darsia.matrixToCartesianIndexing(arr)
        if dflt.shape != out.shape or not np.array_equal(dflt, out):
            raise Violation("layout-default-dim", "matrixToCartesianIndexing(a) differs from "
                            "matrixToCartesianIndexing(a, 2)", t)
    want_shape = tuple(shape[AXES[d][c][0]] for c in range(d)) + tuple(case["trailing"])
    # where the coordinate system puts every voxel: Cartesian lattice cell of the voxel centre
    vox = np.array(list(itertools.product(*[range(n) for n in shape])), dtype=int)
    centres = np.asarray(cs.coordinate(vox + 0.5), dtype=float).reshape(len(vox), d)
    cell = np.empty((len(vox), d), dtype=int)
    counts = []
    for c in range(d):
        h = float(cs.voxel_size[XYZ[c]])
        lo = float(cs.domain[XYZ[c] + "min"])
        hi = float(cs.domain[XYZ[c] + "max"])
        q = (centres[:, c] - lo) / h - 0.5
        if np.any(np.abs(q - np.round(q)) > 1e-9):
            raise HarnessError("voxel centres are not on the Cartesian lattice (inexact geometry)")
        cell[:, c] = np.round(q).astype(int)
        counts.append(int(round((hi - lo) / h)))
        # the same thing from the documented convention
        m, s = AXES[d][c]
        conv = vox[:, m] if s > 0 else shape[m] - 1 - vox[:, m]
        if not np.array_equal(conv, cell[:, c]):
            raise Violation(f"cs-vs-convention:dim{d}", f"Cartesian axis {XYZ[c]}: lattice cells from "
                            "the coordinate system differ from the documented convention", t)
    if tuple(out.shape) != want_shape or tuple(out.shape[:d]) != tuple(counts):
        raise Violation(f"layout-shape:dim{d}",
                        f"matrixToCartesianIndexing of shape {list(arr.shape)} has shape "
                        f"{list(out.shape)}; the coordinate system has {counts} cells along "
                        f"{XYZ[:d]} (+ payload {case['trailing']})", t)
    got = out[tuple(cell[:, c] for c in range(d))]
    want = arr[tuple(vox[:, m] for m in range(d))]
    if not np.array_equal(got, want):
        bad = int(np.argwhere(np.any((got != want).reshape(len(vox), -1), axis=1))[0][0])
        raise Violation(f"layout-placement:dim{d}",
                        f"voxel {vox[bad].tolist()} (centre {centres[bad].tolist()}, Cartesian cell "
                        f"{cell[bad].tolist()}): Cartesian layout holds {np.ravel(got[bad])[:3].tolist()}, "
                        f"the voxel holds {np.ravel(want[bad])[:3].tolist()}", t)
    return Outcome(nontrivial=(d != 2 or _distinct_extents(shape)) and len(vox) > 1,
                   key=[d, shape, case["trailing"], case["origin"], case["vox"], case["pseed"]],
                   labels=_layout_labels(case), evals=len(vox))


def check_layout_inverse(case):
    d = case["dim"]
    t = {"dim": d, "trailing": len(case["trailing"])}
    arr = _payload(case)
    labels = list(_layout_labels(case))
    for bad_dim in (0, 4):
        try:
            darsia.matrixToCartesianIndexing(arr, bad_dim)
        except ValueError:
            continue
        raise Violation("layout-bad-dim", f"matrixToCartesianIndexing(a, {bad_dim}) did not raise "
                        "ValueError", t)
    if d == 2:
        cart = darsia.matrixToCartesianIndexing(arr, 2)
        back = darsia.cartesianToMatrixIndexing(cart)
        if back.shape != arr.shape or not np.array_equal(back, arr):
            raise Violation("layout-inverse:m2c2m", "cartesianToMatrixIndexing(matrixToCartesian"
                            "Indexing(a, 2)) != a", t)
        # and the other way round, starting from an arbitrary Cartesian-layout array
        mat = darsia.cartesianToMatrixIndexing(arr)
        back2 = darsia.matrixToCartesianIndexing(mat, 2)
        if back2.shape != arr.shape or not np.array_equal(back2, arr):
            raise Violation("layout-inverse:c2m2c", "matrixToCartesianIndexing(cartesianToMatrix"
                            "Indexing(b), 2) != b", t)
        return Outcome(nontrivial=_distinct_extents(case["shape"]),
                       key=[case["shape"], case["trailing"], case["pseed"]], labels=tuple(labels),
                       evals=2)
    # 1-D / 3-D: cartesianToMatrixIndexing is documented "assumes 2d images": reported only
    if arr.ndim >= 2:
        back = darsia.cartesianToMatrixIndexing(darsia.matrixToCartesianIndexing(arr, d))
        same = back.shape == arr.shape and np.array_equal(back, arr)
        labels.append(f"observed:c2m-inverts-m2c-in-{d}d={'yes' if same else 'no'}")
    else:
        labels.append("observed:c2m-not-callable-on-1d-vector")
    return Outcome(nontrivial=False, key=None, labels=tuple(labels), status="skipped")


# ---------------------------------------------------------------------------------------

_RULE = ("tables: every (dimension 1-3, axis, direction, str/int axis form) of to_matrix_indexing / "
         "to_cartesian_indexing / interpret_indexing, exhaustively; coordinate-system agreement: "
         "Hypothesis-drawn geometries (dim 1-3, default / user origin, power-of-two / generic / unit "
         "voxel sizes) with a unit step on every matrix axis; name-vs-index: random 2-D/3-D float64 "
         "images (scalar / vector / series, any origin) x Cartesian axis x mode / cut position; "
         "layout: random arrays with pairwise distinct entries, 0-2 trailing payload axes, every voxel "
         "placed; non-trivial = dim 1 or 3, or pairwise distinct extents; distinct = the case")

_ONE = {"quick": 1, "thorough": 1}

PROP = Prop(
    pid="C20",
    rule=_RULE,
    assumptions=[
        "the coordinate system is the arbiter of the axis pairing (2-D x<->j, y<->i reversed; 3-D "
        "x<->j, y<->k reversed, z<->i reversed; 1-D x<->i), as spelled by vf.oracles.AXES",
        "slicing by Cartesian name is asserted only for coordinates strictly inside a voxel layer",
        "cartesianToMatrixIndexing is documented 2-D only: inverse law asserted in 2-D, observed "
        "(labels) in 3-D",
        "write-to-VTK path of utils/plotting.py not executed (pyevtk not installed)",
    ],
    subs=[
        Sub("tables_agree", check_tables_agree, enum=enum_tables, exhaustive=True, shards=_ONE),
        Sub("roundtrip", check_roundtrip, enum=enum_tables, exhaustive=True, shards=_ONE),
        Sub("invalid_axis_rejected", check_invalid_rejected, enum=enum_invalid, exhaustive=True,
            shards=_ONE),
        Sub("agrees_with_coordinate_system", check_agrees_with_cs, gen=gen_geometry,
            n={"quick": 2400, "thorough": 48000}, shards={"quick": 2, "thorough": 8}),
        Sub("name_equals_index_reduce", check_name_equals_index_reduce, gen=gen_named,
            n={"quick": 3600, "thorough": 72000}, shards={"quick": 3, "thorough": 12}),
        Sub("name_equals_index_slice", check_name_equals_index_slice, gen=gen_named,
            n={"quick": 3600, "thorough": 72000}, shards={"quick": 3, "thorough": 12}),
        Sub("layout_placement", check_layout_placement, gen=gen_layout,
            n={"quick": 3600, "thorough": 72000}, shards={"quick": 3, "thorough": 12}),
        Sub("layout_inverse", check_layout_inverse,
            gen=lambda tier: gen_layout(tier, dims=(2, 2, 2, 2, 1, 3)),
            n={"quick": 2400, "thorough": 48000}, shards={"quick": 2, "thorough": 8}),
    ],
)
