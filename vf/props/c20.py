"""C20 - matrix (i, j, k) <-> Cartesian (x, y, z) axis conventions are coherent in every dimension.

The arbiter of "which Cartesian axis is which matrix axis, and is it reversed" is the coordinate
system (``vf.oracles.AXES`` spells that convention and C01 holds the coordinate system to it):
2-D x<->j, y<->i reversed; 3-D x<->j, y<->k reversed, z<->i reversed; 1-D x<->i.
"""
import itertools
import os
import sys
import types

import numpy as np
from hypothesis import strategies as st

import darsia
from vf import gens
from vf.oracles import AXES, RefCS
from vf.runner import HarnessError, Outcome, Prop, Sub, Violation

XYZ = "xyz"
IJK = "ijk"


# ---------------------------------------------------------------------------------------
# calling the table helpers: a refusal of a (dimension, axis) the property quantifies over is
# a violation with its own kind, not a crash bucket named after the exception type
# ---------------------------------------------------------------------------------------


def _to_matrix(axis, d, tags):
    try:
        r = darsia.to_matrix_indexing(axis, XYZ[:d])
    except (AssertionError, ValueError) as e:
        raise Violation(f"rejects:to_matrix_indexing:dim{d}",
                        f"to_matrix_indexing({axis!r}, {XYZ[:d]!r}) raised {type(e).__name__}({e})",
                        tags)
    if not (isinstance(r, str) and len(r) == 1 and r in IJK[:d]):
        raise Violation(f"return:to_matrix_indexing:dim{d}",
                        f"to_matrix_indexing({axis!r}, {XYZ[:d]!r}) returned {r!r}", tags)
    return r


def _to_cartesian(axis, d, tags):
    try:
        r = darsia.to_cartesian_indexing(axis, IJK[:d])
    except (AssertionError, ValueError) as e:
        raise Violation(f"rejects:to_cartesian_indexing:dim{d}",
                        f"to_cartesian_indexing({axis!r}, {IJK[:d]!r}) raised {type(e).__name__}({e})",
                        tags)
    if not (isinstance(r, str) and len(r) == 1 and r in XYZ[:d]):
        raise Violation(f"return:to_cartesian_indexing:dim{d}",
                        f"to_cartesian_indexing({axis!r}, {IJK[:d]!r}) returned {r!r}", tags)
    return r


def _interpret(axis, indexing, tags):
    r = darsia.interpret_indexing(axis, indexing)
    d = len(indexing)
    if not (isinstance(r, tuple) and len(r) == 2 and isinstance(r[0], (int, np.integer))
            and isinstance(r[1], (bool, np.bool_)) and 0 <= r[0] < d):
        raise Violation(f"return:interpret_indexing:dim{d}",
                        f"interpret_indexing({axis!r}, {indexing!r}) returned {r!r}", tags)
    return int(r[0]), bool(r[1])


def _form(letter, letters, form):
    return letter if form == "str" else letters.index(letter)


# ---------------------------------------------------------------------------------------
# 1. tables_agree (exhaustive)
# ---------------------------------------------------------------------------------------


def enum_tables(tier):
    out = []
    for d in (1, 2, 3):
        for direction, letters in (("c2m", XYZ), ("m2c", IJK)):
            for a in letters[:d]:
                for form in ("str", "int"):
                    out.append({"dim": d, "direction": direction, "axis": a, "form": form})
    return out


def _tags(case):
    return {k: case[k] for k in ("dim", "direction", "axis", "form") if k in case}


def check_tables_agree(case):
    d, direction, a, form = case["dim"], case["direction"], case["axis"], case["form"]
    t = _tags(case)
    if direction == "c2m":
        c = XYZ.index(a)
        m, rev = _interpret(a, IJK[:d], t)
        # the two directions of interpret_indexing describe the same pairing, same flag
        c2, rev2 = _interpret(IJK[m], XYZ[:d], t)
        if c2 != c or rev2 != rev:
            raise Violation(f"interpret-directions:dim{d}",
                            f"interpret_indexing({a!r},{IJK[:d]!r}) = {(m, rev)} but "
                            f"interpret_indexing({IJK[m]!r},{XYZ[:d]!r}) = {(c2, rev2)}", t)
        # ... and it is the convention of the coordinate system
        if (m, -1 if rev else 1) != tuple(AXES[d][c]):
            raise Violation(f"interpret-vs-convention:dim{d}",
                            f"interpret_indexing({a!r},{IJK[:d]!r}) = {(m, rev)}; coordinate "
                            f"system convention (matrix axis, sign) = {AXES[d][c]}", t)
        got = _to_matrix(_form(a, XYZ, form), d, t)
        if got != IJK[m]:
            raise Violation(f"disagree:to_matrix_indexing:dim{d}",
                            f"to_matrix_indexing({_form(a, XYZ, form)!r},{XYZ[:d]!r}) = {got!r} but "
                            f"interpret_indexing / the coordinate system pair {a} with {IJK[m]}", t)
    else:
        m = IJK.index(a)
        c, rev = _interpret(a, XYZ[:d], t)
        m2, rev2 = _interpret(XYZ[c], IJK[:d], t)
        if m2 != m or rev2 != rev:
            raise Violation(f"interpret-directions:dim{d}",
                            f"interpret_indexing({a!r},{XYZ[:d]!r}) = {(c, rev)} but "
                            f"interpret_indexing({XYZ[c]!r},{IJK[:d]!r}) = {(m2, rev2)}", t)
        if (m, -1 if rev else 1) != tuple(AXES[d][c]):
            raise Violation(f"interpret-vs-convention:dim{d}",
                            f"interpret_indexing({a!r},{XYZ[:d]!r}) = {(c, rev)}; coordinate "
                            f"system convention for {XYZ[c]}: (matrix axis, sign) = {AXES[d][c]}", t)
        got = _to_cartesian(_form(a, IJK, form), d, t)
        if got != XYZ[c]:
            raise Violation(f"disagree:to_cartesian_indexing:dim{d}",
                            f"to_cartesian_indexing({_form(a, IJK, form)!r},{IJK[:d]!r}) = {got!r} but "
                            f"interpret_indexing / the coordinate system pair {a} with {XYZ[c]}", t)
    # same-family rows are the identity without reversal
    fam = XYZ if direction == "c2m" else IJK
    p, r = _interpret(a, fam[:d], t)
    if p != fam.index(a) or r:
        raise Violation(f"interpret-identity:dim{d}",
                        f"interpret_indexing({a!r},{fam[:d]!r}) = {(p, r)}", t)
    return Outcome(nontrivial=d != 2, key=case, labels=(f"dim{d}", direction, form), evals=3)


def enum_invalid(tier):
    out = []
    for d in (1, 2, 3):
        for indexing in (XYZ[:d], IJK[:d]):
            bad = [a for a in XYZ + IJK if a not in XYZ[:d] + IJK[:d]] + ["t", "", "xy"]
            for a in bad:
                out.append({"axis": a, "indexing": indexing})
    for indexing in ("", "ji", "yx", "xz", "ijkl", "xyzt", "jk"):
        out.append({"axis": "x", "indexing": indexing})
        out.append({"axis": "i", "indexing": indexing})
    return out


def check_invalid_rejected(case):
    """interpret_indexing documents ``Raises: ValueError`` for unsupported combinations."""
    try:
        r = darsia.interpret_indexing(case["axis"], case["indexing"])
    except ValueError:
        return Outcome(nontrivial=True, key=case, labels=("rejected-as-documented",))
    raise Violation("accepted-invalid", f"interpret_indexing({case['axis']!r}, "
                    f"{case['indexing']!r}) returned {r!r} instead of raising ValueError", dict(case))


# ---------------------------------------------------------------------------------------
# 2. roundtrip (exhaustive)
# ---------------------------------------------------------------------------------------


def check_roundtrip(case):
    d, direction, a, form = case["dim"], case["direction"], case["axis"], case["form"]
    t = _tags(case)
    if direction == "c2m":
        mid = _to_matrix(_form(a, XYZ, form), d, t)
        back = _to_cartesian(_form(mid, IJK, form), d, t)
    else:
        mid = _to_cartesian(_form(a, IJK, form), d, t)
        back = _to_matrix(_form(mid, XYZ, form), d, t)
    if back != a:
        raise Violation(f"roundtrip:dim{d}", f"{a} -> {mid} -> {back}", t)
    return Outcome(nontrivial=d != 2, key=case, labels=(f"dim{d}", direction, form))


# ---------------------------------------------------------------------------------------
# 3. agrees_with_coordinate_system
# ---------------------------------------------------------------------------------------


def gen_geometry(tier):
    return st.fixed_dictionaries({
        "img": gens.image_specs(dims=(1, 2, 3), max_extent={1: 12, 2: 7, 3: 5},
                                dtypes=("float64",), payloads=("scalar",), series=(False,),
                                times=("none",)),
        "vseed": st.integers(0, 2**16),
    })


def check_agrees_with_cs(case):
    spec = case["img"]
    d = spec["dim"]
    img = gens.build_image(spec)
    cs = img.coordinatesystem
    ref = RefCS(d, spec["shape"], spec["dimensions"], spec["origin"])
    rng = np.random.default_rng(case["vseed"])
    base = np.array([int(rng.integers(-2, n + 2)) for n in spec["shape"]], dtype=int)
    x0 = np.asarray(cs.coordinate(base), dtype=float)
    t = {"dim": d, "origin": "user" if spec["origin"] is not None else "default"}
    pairs = []
    for m in range(d):
        e = np.zeros(d, dtype=int)
        e[m] = 1
        step = np.asarray(cs.coordinate(base + e), dtype=float) - x0
        moved = [c for c in range(d) if step[c] != 0.0]
        if len(moved) != 1:
            raise Violation("step-axes", f"a unit step on matrix axis {m} moved Cartesian axes "
                            f"{moved} (step {step.tolist()})", t)
        c = moved[0]
        rev = bool(step[c] < 0)
        pairs.append((m, c, rev))
        tt = dict(t, maxis=m)
        # tables, both directions, must name exactly what the coordinate system does
        c1, rev1 = _interpret(IJK[m], XYZ[:d], tt)
        if (c1, rev1) != (c, rev):
            raise Violation(f"interpret-vs-cs:dim{d}",
                            f"a unit step on matrix axis {IJK[m]} moves {XYZ[c]} "
                            f"{'backwards' if rev else 'forwards'} in the coordinate system, "
                            f"interpret_indexing({IJK[m]!r},{XYZ[:d]!r}) = {(c1, rev1)}", tt)
        m2, rev2 = _interpret(XYZ[c], IJK[:d], tt)
        if (m2, rev2) != (m, rev):
            raise Violation(f"interpret-vs-cs:dim{d}",
                            f"coordinate system: {XYZ[c]} <-> {IJK[m]} reversed={rev}; "
                            f"interpret_indexing({XYZ[c]!r},{IJK[:d]!r}) = {(m2, rev2)}", tt)
        if (m, -1 if rev else 1) != tuple(AXES[d][c]):
            raise Violation(f"cs-vs-convention:dim{d}", f"coordinate system pairs {XYZ[c]} with "
                            f"{IJK[m]} (reversed={rev}); documented convention {AXES[d][c]}", tt)
        # size of the step = voxel size the coordinate system files under that Cartesian name
        h = float(cs.voxel_size[XYZ[c]])
        if h != float(img.voxel_size[m]):
            raise Violation(f"voxel-size-name:dim{d}", f"coordinatesystem.voxel_size[{XYZ[c]!r}] = "
                            f"{h!r} but the voxel size of matrix axis {m} is {img.voxel_size[m]!r}", tt)
        tol = 8 * np.finfo(float).eps * (abs(ref.origin[c]) + (abs(base[m]) + 2) * ref.h[m])
        if abs(abs(step[c]) - ref.h[m]) > tol:
            raise Violation(f"step-size:dim{d}", f"step {step[c]!r} vs voxel size {ref.h[m]!r}", tt)
        # length <-> voxel-count conversion addressed by the Cartesian name uses that voxel size
        if float(cs.length(3, XYZ[c])) != 3 * h:
            raise Violation(f"length-name:dim{d}", f"coordinatesystem.length(3, {XYZ[c]!r}) = "
                            f"{cs.length(3, XYZ[c])!r}, voxel size {h!r}", tt)
        # the relative (vector) form of the voxel -> coordinate map names the same pairing and
        # orientation: one voxel along matrix axis m is exactly +-(voxel size) along c
        vec = np.asarray(cs.coordinate_vector(e.astype(float)), dtype=float)
        want_vec = np.zeros(d)
        want_vec[c] = -h if rev else h
        if vec.shape != (d,) or not np.array_equal(vec, want_vec):
            raise Violation(f"coordinate-vector-vs-cs:dim{d}",
                            f"coordinate_vector(unit vector on matrix axis {IJK[m]}) = {vec.tolist()}; "
                            f"the same step moves coordinate() by {step.tolist()} (voxel size "
                            f"{h!r} along {XYZ[c]}, reversed={rev})", tt)
        # metric length -> voxel count addressed by the Cartesian name uses that voxel size too
        nv = cs.num_voxels(2.5 * h, XYZ[c])
        if int(nv) != 3:
            raise Violation(f"num-voxels-name:dim{d}", f"coordinatesystem.num_voxels(2.5 * {h!r}, "
                            f"{XYZ[c]!r}) = {nv!r}: 2.5 voxel sizes touch 3 voxels", tt)
    # the inverse map agrees: the centre of voxel ``base`` (placed by the independent reference
    # map) is in voxel ``base`` - every Cartesian component lands on the matrix axis the tables
    # pair it with, counted in the stated direction
    centre = ref.coordinate(base + 0.5)
    worst = max(64 * np.finfo(float).eps * (abs(centre[c]) + abs(ref.origin[c]) + ref.h[AXES[d][c][0]])
                / ref.h[AXES[d][c][0]] for c in range(d))
    inverse_checked = worst < 0.05
    if inverse_checked:
        back = np.asarray(cs.voxel(np.array(centre, dtype=float)))
        if back.shape != (d,) or not np.array_equal(back, base):
            raise Violation(f"voxel-vs-cs:dim{d}",
                            f"coordinatesystem.voxel(centre of voxel {base.tolist()} = "
                            f"{centre.tolist()}) = {back.tolist()}", t)
    # second pass (after the coordinate system and interpret_indexing were compared on every
    # axis): the single-axis translation helpers
    for m, c, rev in pairs:
        tt = dict(t, maxis=m)
        got = _to_cartesian(m, d, tt)
        if got != XYZ[c]:
            raise Violation(f"disagree:to_cartesian_indexing:dim{d}",
                            f"a unit step on matrix axis {IJK[m]} moves {XYZ[c]} in the coordinate "
                            f"system, to_cartesian_indexing({m},{IJK[:d]!r}) = {got!r}", tt)
        got = _to_matrix(XYZ[c], d, tt)
        if got != IJK[m]:
            raise Violation(f"disagree:to_matrix_indexing:dim{d}",
                            f"the coordinate system pairs {XYZ[c]} with {IJK[m]}, "
                            f"to_matrix_indexing({XYZ[c]!r},{XYZ[:d]!r}) = {got!r}", tt)
    return Outcome(nontrivial=d != 2, key=[d, spec["shape"], spec["dimensions"], spec["origin"],
                                          base.tolist()],
                   labels=(f"dim{d}", "origin-" + t["origin"],
                           "inverse-map-" + ("checked" if inverse_checked else "skipped-roundoff")),
                   evals=3 * d + int(inverse_checked))


# ---------------------------------------------------------------------------------------
# 4. name_equals_index  (reduction / slicing)
# ---------------------------------------------------------------------------------------


# photographs are integer-typed, masks boolean: addressing an axis is not a float-only operation
_NAMED_DTYPES = ("float64", "float64", "float64", "float32", "uint8", "uint16", "bool")


def _intlike(spec):
    return spec["dtype"] in ("uint8", "uint16", "bool")


def gen_named(tier):
    @st.composite
    def strat(draw):
        spec = draw(gens.image_specs(dims=(2, 3), max_extent={2: 8, 3: 5}, dtypes=_NAMED_DTYPES,
                                     max_nt=3, max_comp=3))
        d = spec["dim"]
        c = draw(st.integers(0, d - 1))
        return {
            "img": spec,
            "caxis": c,
            "mode": draw(st.sampled_from(["sum", "average", "slice"])),
            "vfrac": draw(st.integers(0, 10**6)),  # -> voxel index along the axis
            "t": draw(st.sampled_from([0.5, 0.25, 0.75, draw(st.floats(0.1, 0.9))])),
        }

    return strat()


def _named_setup(case):
    spec = case["img"]
    d = spec["dim"]
    c = case["caxis"]
    m, sgn = AXES[d][c]
    n = spec["shape"][m]
    v = case["vfrac"] % n
    return spec, d, c, m, sgn, n, v


def _labels_named(spec, c, extra=()):
    return (f"dim{spec['dim']}", f"axis-{XYZ[c]}",
            f"payload-{spec['payload']}{'-series' if spec['series'] else ''}",
            "origin-user" if spec["origin"] is not None else "origin-default",
            f"dtype-{spec['dtype']}") + tuple(extra)


def _distinct_extents(shape):
    return len(set(shape)) == len(shape)


def _kwtxt(kw):
    return "".join(f", {k}={v!r}" for k, v in kw.items())


def _reduce(img, axis, mode, kw, d, tags):
    """reduce_axis on an input of its domain (valid axis, valid layer index of that axis)."""
    try:
        return darsia.reduce_axis(img, axis, mode, **kw)
    except TypeError as e:
        # numpy's UFuncTypeError (in-place true division of an integer array) derives from it
        if img.img.dtype.kind not in "biu":
            raise
        raise Violation(f"integer-image:reduce-{mode}",
                        f"reduce_axis(img, {axis!r}, {mode!r}{_kwtxt(kw)}) on a {img.img.dtype} image "
                        f"of shape {list(img.img.shape)} raised {type(e).__name__}({e})",
                        dict(tags, dtype=str(img.img.dtype)))
    except IndexError as e:
        raise Violation(f"reduce-fails:{mode}:dim{d}",
                        f"reduce_axis(img, {axis!r}, {mode!r}{_kwtxt(kw)}) on an image of shape "
                        f"{list(img.img.shape)} raised IndexError({e}) although the index is a "
                        f"valid layer of the addressed axis", tags)


def _reduced_along(arr, mm, mode, kw, got):
    """diagnostics only: is ``got`` the reduction of ``arr`` along matrix axis ``mm``?"""
    if mode == "slice":
        if kw["slice_idx"] >= arr.shape[mm]:
            return False
        w = np.take(arr, kw["slice_idx"], axis=mm)
    else:
        w = np.sum(arr, axis=mm)
        if mode == "average":
            w = w / arr.shape[mm]
    return w.shape == got.shape and np.array_equal(w, got)


def check_name_equals_index_reduce(case):
    spec, d, c, m, sgn, n, v = _named_setup(case)
    mode = case["mode"]
    # mode "slice": any layer of the addressed axis (a valid index there; on an image with
    # distinct extents it need not be a valid index on the other axes)
    kw = {"slice_idx": v} if mode == "slice" else {}
    t = {"dim": d, "axis": XYZ[c], "mode": mode}
    by_name_obj = darsia.AxisReduction(XYZ[c], d, mode, **kw)
    by_index_obj = darsia.AxisReduction(m, d, mode, **kw)
    if (by_name_obj.index, by_name_obj.axis) != (by_index_obj.index, by_index_obj.axis):
        raise Violation(f"reduction-axis:dim{d}",
                        f"AxisReduction({XYZ[c]!r}) resolves to (matrix {by_name_obj.index}, "
                        f"Cartesian {by_name_obj.axis}); AxisReduction({m}) to (matrix "
                        f"{by_index_obj.index}, Cartesian {by_index_obj.axis}); the coordinate "
                        f"system pairs {XYZ[c]} with matrix axis {m}", t)
    if (by_name_obj.index, by_name_obj.axis) != (m, c):
        raise Violation(f"reduction-axis:dim{d}",
                        f"AxisReduction resolves {XYZ[c]!r} / {m} to (matrix {by_name_obj.index}, "
                        f"Cartesian {by_name_obj.axis}), coordinate system says ({m}, {c})", t)
    src = gens.build_image(spec)
    arr = np.array(src.img, copy=True)
    dims_in = [float(x) for x in src.dimensions]
    before = gens.snapshot(src)
    # both forms address the *same image object* (first by name, then by index, or the other way
    # round), as a caller comparing them would; a third call on a fresh image tells a difference
    # between the forms from a call that changed the image it was given
    forms = [XYZ[c], m] if case["vfrac"] % 2 == 0 else [m, XYZ[c]]
    res = {}
    for f in forms:
        res[f] = gens.snapshot(_reduce(src, f, mode, kw, d, t))
        ok, why = gens.snapshot_equal(before, gens.snapshot(src))
        if not ok:
            raise Violation(f"reduce-changes-its-input:dim{d}",
                            f"after reduce_axis(img, {f!r}, {mode!r}{_kwtxt(kw)}) the image itself "
                            f"differs: {why}", t)
    a, b = res[XYZ[c]], res[m]
    ok, why = gens.snapshot_equal(a, b)
    if not ok:
        raise Violation(f"reduce-name-vs-index:dim{d}",
                        f"reduce_axis(img, {XYZ[c]!r}, {mode!r}) differs from reduce_axis(img, {m}, "
                        f"{mode!r}): {why}", t)
    # the axis the object resolved is also the axis the reduction *acts on*: the data are the
    # numpy reduction of the array along the matrix axis the coordinate system pairs with the
    # addressed Cartesian axis (same float operations as a reduction along one axis performs:
    # one sum, one division by the voxel count, or one layer), whatever the mode
    if mode == "slice":
        want = np.take(arr, kw["slice_idx"], axis=m)
    else:
        want = np.sum(arr, axis=m)
        if mode == "average":
            want = want / arr.shape[m]
    # (the mean of an integer-typed image is asserted up to the rounding convention: any value
    # within one unit of the exact mean; sums, layers and float means are exact)
    loose = mode == "average" and _intlike(spec)
    for how, got in ((repr(XYZ[c]), a), (repr(m), b)):
        g = np.asarray(got["img"])
        if loose:
            same = g.shape == want.shape and bool(np.all(np.abs(g.astype(float) - want) < 1.0))
        else:
            same = g.shape == want.shape and np.array_equal(g, want)
        if not same:
            other = [mm for mm in range(d) if mm != m and _reduced_along(arr, mm, mode, kw, g)]
            raise Violation(f"reduce-acts-on-other-axis:{mode}:dim{d}",
                            f"reduce_axis(img, {how}, {mode!r}{_kwtxt(kw)}).img (shape {list(g.shape)}) "
                            f"is not the {mode} of the array (shape {list(arr.shape)}) along matrix "
                            f"axis {m}, the axis the coordinate system pairs with {XYZ[c]}"
                            + (f"; it is the {mode} along matrix axis {other[0]}" if other else ""),
                            dict(t, addressed="name" if how.startswith("'") else "index"))
    # ... and the extent that disappears from the metadata is the extent of that matrix axis
    want_dims = dims_in[:m] + dims_in[m + 1:]
    for how, got_img in ((repr(XYZ[c]), a), (repr(m), b)):
        got_dims = [float(x) for x in got_img["meta"]["dimensions"]]
        if got_dims != want_dims:
            raise Violation(f"reduce-drops-other-extent:dim{d}",
                            f"reduce_axis(img, {how}, {mode!r}{_kwtxt(kw)}).dimensions = {got_dims}; "
                            f"dimensions {dims_in} without matrix axis {m} are {want_dims}", t)
    # slicing and reduction address the same layer: mode "slice" at index n along an axis holds
    # the data of Image.slice(n, <matrix index of that axis>)
    # (floating-point images here; Image.slice of integer-typed images: name_equals_index_slice)
    if mode == "slice" and not _intlike(spec):
        ref_img = np.asarray(gens.build_image(spec).slice(kw["slice_idx"], m).img)
        g = np.asarray(a["img"])
        if g.shape != ref_img.shape or not np.array_equal(g, ref_img):
            raise Violation(f"reduce-slice-vs-image-slice:dim{d}",
                            f"reduce_axis(img, {XYZ[c]!r}, 'slice', slice_idx={kw['slice_idx']}).img "
                            f"differs from img.slice({kw['slice_idx']}, {m}).img", t)
    extra = [f"mode-{mode}"]
    if mode == "slice":
        extra.append("slice-layer-" + ("only" if n == 1 else "first" if v == 0 else
                                        "last" if v == n - 1 else "interior"))
        extra.append("slice-idx-" + ("valid-on-every-axis" if v < min(spec["shape"])
                                     else "valid-on-addressed-axis-only"))
    return Outcome(nontrivial=d == 3 or _distinct_extents(spec["shape"]),
                   key=[spec["shape"], spec["dimensions"], spec["origin"], spec["payload"],
                        spec["series"], c, mode, v, spec["pseed"]],
                   labels=_labels_named(spec, c, extra))


def _slice(img, cut, axis, tags):
    """Image.slice; cutting a layer out of an integer-typed image involves no arithmetic, a
    numpy casting error there gets its own kind."""
    try:
        return img.slice(cut, axis)
    except TypeError as e:
        if img.img.dtype.kind not in "biu":
            raise
        raise Violation("integer-image:slice",
                        f"img.slice({cut!r}, {axis!r}) on a {img.img.dtype} image of shape "
                        f"{list(img.img.shape)} raised {type(e).__name__}({e})",
                        dict(tags, dtype=str(img.img.dtype)))


def check_name_equals_index_slice(case):
    spec, d, c, m, sgn, n, v = _named_setup(case)
    t = {"dim": d, "axis": XYZ[c]}
    ref = RefCS(d, spec["shape"], spec["dimensions"], spec["origin"])
    # a coordinate strictly inside voxel layer v of matrix axis m (never on a face)
    pos = np.zeros(d)
    pos[m] = v + case["t"]
    coord = float(ref.coordinate(pos)[c])
    margin = 64 * np.finfo(float).eps * (abs(coord) + abs(ref.origin[c]) + ref.h[m]) / ref.h[m]
    if margin >= 0.05:
        return Outcome(nontrivial=False, key=None, status="skipped")
    img = gens.build_image(spec)
    arr = img.img.copy()
    before = gens.snapshot(img)
    by_index = gens.snapshot(_slice(img, v, m, t))
    want = np.take(arr, v, axis=m)
    if (by_index["img"].shape != want.shape or by_index["img"].dtype != want.dtype
            or not np.array_equal(by_index["img"], want)):
        raise Violation(f"slice-index-data:dim{d}", f"img.slice({v}, {m}).img is not the array "
                        f"layer {v} of axis {m} ({by_index['dtype']} {list(by_index['img'].shape)} "
                        f"from a {arr.dtype} image)", t)
    # the same image object is then addressed by name (as a caller comparing the two would)
    try:
        by_name_img = _slice(img, coord, XYZ[c], t)
    except (AssertionError, IndexError, ValueError) as e:
        raise Violation(f"slice-by-name-fails:dim{d}",
                        f"img.slice({coord!r}, {XYZ[c]!r}) raised {type(e).__name__}({e}); "
                        f"img.slice({v}, {m}) works", t)
    by_name = gens.snapshot(by_name_img)
    ok, why = gens.snapshot_equal(before, gens.snapshot(img))
    if not ok:
        raise Violation(f"slice-changes-its-input:dim{d}", f"after img.slice({v}, {m}) and "
                        f"img.slice({coord!r}, {XYZ[c]!r}) the image itself differs: {why}", t)
    ok, why = gens.snapshot_equal(by_name, by_index)
    if not ok:
        raise Violation(f"slice-name-vs-index:dim{d}",
                        f"img.slice({coord!r}, {XYZ[c]!r}) differs from img.slice({v}, {m}) although "
                        f"the coordinate lies in voxel layer {v} of matrix axis {m}: {why}", t)
    # the same with integer-typed metadata (dimensions / origin given as Python ints, as in
    # Image(arr, dimensions=[2, 3, 4])): the cut coordinate stays a float
    ints_ok = all(float(x).is_integer() for x in spec["dimensions"]) and (
        spec["origin"] is None or all(float(x).is_integer() for x in spec["origin"]))
    if ints_ok:
        spec_i = dict(spec, dimensions=[int(x) for x in spec["dimensions"]],
                      origin=None if spec["origin"] is None else [int(x) for x in spec["origin"]])
        img3 = gens.build_image(spec_i)
        try:
            got_i = np.asarray(_slice(img3, coord, XYZ[c], t).img)
        except (AssertionError, IndexError, ValueError) as e:
            raise Violation(f"slice-by-name-fails:int-metadata:dim{d}", f"integer-typed dimensions/origin: "
                            f"img.slice({coord!r}, {XYZ[c]!r}) raised {type(e).__name__}({e})", t)
        if got_i.shape != want.shape or not np.array_equal(got_i, want):
            raise Violation(f"slice-name-vs-index:int-metadata:dim{d}", f"integer-typed dimensions/origin: "
                            f"img.slice({coord!r}, {XYZ[c]!r}) is not layer {v} of matrix axis {m}", t)
    return Outcome(nontrivial=d == 3 or _distinct_extents(spec["shape"]),
                   key=[spec["shape"], spec["dimensions"], spec["origin"], spec["payload"],
                        spec["series"], c, v, case["t"], spec["pseed"]],
                   labels=_labels_named(spec, c))


# ---------------------------------------------------------------------------------------
# 5./6. layout helpers
# ---------------------------------------------------------------------------------------


def gen_layout(tier, dims=(1, 2, 3), trailing=True, extra=None):
    @st.composite
    def strat(draw):
        d = draw(st.sampled_from(list(dims)))
        mx = {1: 12, 2: 7, 3: 5}[d]
        if draw(st.integers(0, 2)) > 0 and d > 1:
            shape = draw(st.permutations(list(range(1, mx + 1))))[:d]  # distinct extents
        else:
            shape = draw(gens.shapes(d, mx))
        vox = draw(gens.voxel_sizes(d, "pow2"))
        okind = draw(st.sampled_from(["default", "user"]))
        origin = None
        if okind == "user":
            origin = [float(draw(st.integers(-50, 50)) * vox[AXES[d][c][0]]) for c in range(d)]
        trail = draw(st.lists(st.integers(1, 3), min_size=0, max_size=2)) if trailing else []
        case = {"dim": d, "shape": list(shape), "vox": vox, "origin": origin,
                "trailing": trail, "pseed": draw(st.integers(0, 2**16))}
        for k, strategy in (extra or {}).items():
            case[k] = draw(strategy)
        return case

    return strat()


def _payload(case):
    full = list(case["shape"]) + list(case["trailing"])
    rng = np.random.default_rng(case["pseed"])
    return rng.permutation(int(np.prod(full))).astype(float).reshape(full)  # all entries distinct


def _layout_labels(case):
    return (f"dim{case['dim']}", f"trailing{len(case['trailing'])}",
            "distinct-extents" if _distinct_extents(case["shape"]) else "repeated-extents",
            "origin-user" if case["origin"] is not None else "origin-default")


def check_layout_placement(case):
    d, shape = case["dim"], case["shape"]
    t = {"dim": d, "trailing": len(case["trailing"])}
    arr = _payload(case)
    dims = [shape[i] * case["vox"][i] for i in range(d)]
    kw = {"space_dim": d, "dimensions": list(dims), "scalar": True}
    if case["origin"] is not None:
        kw["origin"] = list(case["origin"])
    host = darsia.Image(np.zeros(shape), **kw)
    cs = host.coordinatesystem
    before = arr.copy()
    out = darsia.matrixToCartesianIndexing(arr, d)
    if not np.array_equal(arr, before):
        raise Violation("layout-mutates-input", "matrixToCartesianIndexing changed its argument", t)
    if d == 2:
        dflt = darsia.matrixToCartesianIndexing(arr)
        if dflt.shape != out.shape or not np.array_equal(dflt, out):
            raise Violation("layout-default-dim", "matrixToCartesianIndexing(a) differs from "
                            "matrixToCartesianIndexing(a, 2)", t)
    want_shape = tuple(shape[AXES[d][c][0]] for c in range(d)) + tuple(case["trailing"])
    # where the coordinate system puts every voxel: Cartesian lattice cell of the voxel centre
    vox = np.array(list(itertools.product(*[range(n) for n in shape])), dtype=int)
    centres = np.asarray(cs.coordinate(vox + 0.5), dtype=float).reshape(len(vox), d)
    cell = np.empty((len(vox), d), dtype=int)
    counts = []
    for c in range(d):
        h = float(cs.voxel_size[XYZ[c]])
        lo = float(cs.domain[XYZ[c] + "min"])
        hi = float(cs.domain[XYZ[c] + "max"])
        q = (centres[:, c] - lo) / h - 0.5
        if np.any(np.abs(q - np.round(q)) > 1e-9):
            raise HarnessError("voxel centres are not on the Cartesian lattice (inexact geometry)")
        cell[:, c] = np.round(q).astype(int)
        counts.append(int(round((hi - lo) / h)))
        # the same thing from the documented convention
        m, s = AXES[d][c]
        conv = vox[:, m] if s > 0 else shape[m] - 1 - vox[:, m]
        if not np.array_equal(conv, cell[:, c]):
            raise Violation(f"cs-vs-convention:dim{d}", f"Cartesian axis {XYZ[c]}: lattice cells from "
                            "the coordinate system differ from the documented convention", t)
    if tuple(out.shape) != want_shape or tuple(out.shape[:d]) != tuple(counts):
        raise Violation(f"layout-shape:dim{d}",
                        f"matrixToCartesianIndexing of shape {list(arr.shape)} has shape "
                        f"{list(out.shape)}; the coordinate system has {counts} cells along "
                        f"{XYZ[:d]} (+ payload {case['trailing']})", t)
    got = out[tuple(cell[:, c] for c in range(d))]
    want = arr[tuple(vox[:, m] for m in range(d))]
    if not np.array_equal(got, want):
        bad = int(np.argwhere(np.any((got != want).reshape(len(vox), -1), axis=1))[0][0])
        raise Violation(f"layout-placement:dim{d}",
                        f"voxel {vox[bad].tolist()} (centre {centres[bad].tolist()}, Cartesian cell "
                        f"{cell[bad].tolist()}): Cartesian layout holds {np.ravel(got[bad])[:3].tolist()}, "
                        f"the voxel holds {np.ravel(want[bad])[:3].tolist()}", t)
    return Outcome(nontrivial=(d != 2 or _distinct_extents(shape)) and len(vox) > 1,
                   key=[d, shape, case["trailing"], case["origin"], case["vox"], case["pseed"]],
                   labels=_layout_labels(case), evals=len(vox))


def check_layout_inverse(case):
    d = case["dim"]
    t = {"dim": d, "trailing": len(case["trailing"])}
    arr = _payload(case)
    labels = list(_layout_labels(case))
    for bad_dim in (0, 4):
        try:
            darsia.matrixToCartesianIndexing(arr, bad_dim)
        except ValueError:
            continue
        raise Violation("layout-bad-dim", f"matrixToCartesianIndexing(a, {bad_dim}) did not raise "
                        "ValueError", t)
    if d == 2:
        cart = darsia.matrixToCartesianIndexing(arr, 2)
        back = darsia.cartesianToMatrixIndexing(cart)
        if back.shape != arr.shape or not np.array_equal(back, arr):
            raise Violation("layout-inverse:m2c2m", "cartesianToMatrixIndexing(matrixToCartesian"
                            "Indexing(a, 2)) != a", t)
        # and the other way round, starting from an arbitrary Cartesian-layout array
        mat = darsia.cartesianToMatrixIndexing(arr)
        back2 = darsia.matrixToCartesianIndexing(mat, 2)
        if back2.shape != arr.shape or not np.array_equal(back2, arr):
            raise Violation("layout-inverse:c2m2c", "matrixToCartesianIndexing(cartesianToMatrix"
                            "Indexing(b), 2) != b", t)
        return Outcome(nontrivial=_distinct_extents(case["shape"]),
                       key=[case["shape"], case["trailing"], case["pseed"]], labels=tuple(labels),
                       evals=2)
    # 1-D / 3-D: cartesianToMatrixIndexing is documented "assumes 2d images": reported only
    if arr.ndim >= 2:
        back = darsia.cartesianToMatrixIndexing(darsia.matrixToCartesianIndexing(arr, d))
        same = back.shape == arr.shape and np.array_equal(back, arr)
        labels.append(f"observed:c2m-inverts-m2c-in-{d}d={'yes' if same else 'no'}")
    else:
        labels.append("observed:c2m-not-callable-on-1d-vector")
    return Outcome(nontrivial=False, key=None, labels=tuple(labels), status="skipped")


# ---------------------------------------------------------------------------------------
# 7. the VTK export (utils/plotting.py:to_vtk, Image.to_vtk): the rectilinear grid handed to the
#    writer is built from interpret_indexing + matrixToCartesianIndexing
# ---------------------------------------------------------------------------------------

_VERIF = os.path.dirname(os.path.dirname(os.path.dirname(os.path.abspath(__file__))))


def _record_vtk_writes(fn):
    """Run ``fn`` with a recording stand-in for ``pyevtk.hl.gridToVTK`` (the only thing to_vtk
    imports from pyevtk; the package is not installed here, and the law is about what is handed
    to the writer, not about the file format).  -> list of recorded calls."""
    calls = []

    def gridToVTK(path, x, y, z, cellData=None, pointData=None, **kwargs):
        calls.append({"x": np.array(x, dtype=float), "y": np.array(y, dtype=float),
                      "z": np.array(z, dtype=float),
                      "cellData": {k: np.array(v) for k, v in (cellData or {}).items()
                                   if isinstance(v, np.ndarray)}})
        return path

    hl = types.ModuleType("pyevtk.hl")
    hl.gridToVTK = gridToVTK
    pkg = types.ModuleType("pyevtk")
    pkg.hl = hl
    saved = {k: sys.modules.get(k) for k in ("pyevtk", "pyevtk.hl")}
    sys.modules["pyevtk"], sys.modules["pyevtk.hl"] = pkg, hl
    try:
        fn()
    finally:
        for k, v in saved.items():
            if v is None:
                sys.modules.pop(k, None)
            else:
                sys.modules[k] = v
    return calls


def gen_vtk(tier):
    return gen_layout(tier, trailing=False, extra={
        "via": st.sampled_from(["function", "function+ndarray", "method"])})


def check_vtk_grid_placement(case):
    d, shape, via = case["dim"], case["shape"], case["via"]
    t = {"dim": d, "via": via}
    arr = _payload(case)
    arr2 = _payload(dict(case, pseed=case["pseed"] + 1)) + float(arr.size)
    dims = [shape[i] * case["vox"][i] for i in range(d)]
    kw = {"space_dim": d, "dimensions": list(dims), "scalar": True}
    if case["origin"] is not None:
        kw["origin"] = list(case["origin"])
    img = darsia.Image(arr.copy(), **kw)
    cs = img.coordinatesystem
    scratch = os.path.join(_VERIF, ".cache", "run-C20", f"vtk-{os.getpid()}")
    os.makedirs(scratch, exist_ok=True)
    path = os.path.join(scratch, "grid")
    fields = {"f": arr}
    if via == "method":
        run = lambda: img.to_vtk(path, name="f")  # noqa: E731
    else:
        data = [("f", img, darsia.Format.SCALAR)]
        if via == "function+ndarray":
            data.append(("g", arr2.copy(), darsia.Format.SCALAR))
            fields["g"] = arr2
        run = lambda: darsia.plotting.to_vtk(path, data)  # noqa: E731
    try:
        calls = _record_vtk_writes(run)
    finally:
        try:
            os.rmdir(scratch)
        except OSError:
            pass
    if len(calls) != 1:
        raise Violation("vtk-writer-calls", f"the grid writer was called {len(calls)} times", t)
    call = calls[0]
    # where the coordinate system puts every voxel centre, and which grid cell contains it
    vox = np.array(list(itertools.product(*[range(n) for n in shape])), dtype=int)
    centres = np.asarray(cs.coordinate(vox + 0.5), dtype=float).reshape(len(vox), d)
    cell = np.zeros((len(vox), 3), dtype=int)
    want_shape = []
    for c in range(3):
        nodes = call["xyz"[c]]
        if c >= d:
            if nodes.size != 1:
                raise Violation(f"vtk-grid:dim{d}", f"{d}-d image: grid nodes along {XYZ[c]} are "
                                f"{nodes.tolist()}", t)
            want_shape.append(1)
            continue
        h = float(cs.voxel_size[XYZ[c]])
        lo = float(cs.domain[XYZ[c] + "min"])
        hi = float(cs.domain[XYZ[c] + "max"])
        count = int(round((hi - lo) / h))
        want_shape.append(count)
        tt = dict(t, axis=XYZ[c])
        # the nodes along a Cartesian axis are the faces of the voxel layers of the matrix axis
        # the coordinate system pairs with it: that many of them, that far apart, spanning the
        # extent filed under that Cartesian name
        lattice = lo + h * np.arange(count + 1)
        if nodes.ndim != 1 or nodes.size != count + 1 or np.any(
                np.abs(np.sort(nodes) - lattice) > 1e-9 * h):
            raise Violation(f"vtk-grid:dim{d}",
                            f"grid nodes along {XYZ[c]}: {nodes.tolist()}; the coordinate system has "
                            f"{count} voxel layers of size {h!r} on [{lo!r}, {hi!r}] there", tt)
        a, b = np.minimum(nodes[:-1], nodes[1:]), np.maximum(nodes[:-1], nodes[1:])
        inside = (a[None, :] < centres[:, c, None]) & (centres[:, c, None] < b[None, :])
        if np.any(inside.sum(axis=1) != 1):
            raise HarnessError("a voxel centre is not strictly inside exactly one grid cell")
        cell[:, c] = np.argmax(inside, axis=1)
    for name, src in fields.items():
        got_arr = call["cellData"].get(name)
        if got_arr is None or tuple(got_arr.shape) != tuple(want_shape):
            raise Violation(f"vtk-cell-data-shape:dim{d}",
                            f"cell data {name!r} handed to the writer has shape "
                            f"{None if got_arr is None else list(got_arr.shape)}; the grid has "
                            f"{want_shape} cells along x, y, z", t)
        got = got_arr[cell[:, 0], cell[:, 1], cell[:, 2]]
        want = src[tuple(vox[:, m] for m in range(d))]
        if not np.array_equal(got, want):
            bad = int(np.argwhere(got != want)[0][0])
            raise Violation(f"vtk-placement:dim{d}",
                            f"field {name!r}: voxel {vox[bad].tolist()} (centre {centres[bad].tolist()}) "
                            f"holds {want[bad]!r}; the grid cell {cell[bad].tolist()} containing that "
                            f"point carries {got[bad]!r}", dict(t, field=name))
    if not np.array_equal(img.img, arr):
        raise Violation("vtk-mutates-input", "to_vtk changed the image array", t)
    return Outcome(nontrivial=(d != 2 or _distinct_extents(shape)) and len(vox) > 1,
                   key=[d, shape, case["origin"], case["vox"], case["pseed"], via],
                   labels=(f"dim{d}", f"via-{via}",
                           "distinct-extents" if _distinct_extents(shape) else "repeated-extents",
                           "origin-user" if case["origin"] is not None else "origin-default"),
                   evals=len(vox) * len(fields))


# ---------------------------------------------------------------------------------------
# 8. extrusion ("performed along the z axis") adds the axis every helper calls z
# ---------------------------------------------------------------------------------------


def gen_extrude(tier):
    return st.fixed_dictionaries({
        "img": gens.image_specs(dims=(2,), max_extent={2: 6}, dtypes=_NAMED_DTYPES, max_nt=3,
                                max_comp=3),
        "num": st.integers(1, 4),
        "height": st.sampled_from([1.0, 0.5, 4.0, 0.3, 2.75, 1e-3, 123.0]),
        "layer": st.integers(0, 11),
        "t": st.sampled_from([0.5, 0.25, 0.75]),
    })


def check_extrusion_axis(case):
    spec, num, height = case["img"], case["num"], case["height"]
    k = case["layer"] % num
    t = {"num": num, "payload": spec["payload"], "series": spec["series"]}
    img = gens.build_image(spec)
    arr = img.img.copy()
    dims_in = [float(x) for x in img.dimensions]
    ext = darsia.extrude_along_axis(img, height, num)
    mz, _ = _interpret("z", IJK, t)  # tables_agree holds this row to the coordinate system
    if ext.space_dim != 3 or tuple(ext.img.shape) != tuple(
            list(arr.shape[:mz]) + [num] + list(arr.shape[mz:])):
        raise Violation("extrude-axis:shape",
                        f"extrude_along_axis(img of shape {list(arr.shape)}, {height}, {num}) has "
                        f"space_dim {ext.space_dim}, shape {list(ext.img.shape)}; the {num} new "
                        f"layers belong on matrix axis {mz}, the axis paired with z", t)
    cs = ext.coordinatesystem
    hz = float(cs.voxel_size["z"])
    zext = float(cs.domain["zmax"]) - float(cs.domain["zmin"])
    tol = 16 * np.finfo(float).eps * (abs(float(cs.domain["zmax"])) + abs(float(cs.domain["zmin"]))
                                      + height)
    if abs(hz * num - height) > 8 * np.finfo(float).eps * height or abs(zext - height) > tol:
        raise Violation("extrude-axis:height",
                        f"extruded by {height} in {num} layers: voxel size along z is {hz!r}, the "
                        f"domain spans {zext!r} along z", t)
    # every layer addressed through the name "z" is the original image
    red = darsia.reduce_axis(ext, "z", "slice", slice_idx=k)
    if red.img.dtype != arr.dtype or red.img.shape != arr.shape or not np.array_equal(red.img, arr):
        raise Violation("extrude-axis:layer",
                        f"reduce_axis(extruded, 'z', 'slice', slice_idx={k}).img is not the "
                        f"extruded image's array", t)
    if [float(x) for x in red.dimensions] != dims_in:
        raise Violation("extrude-axis:dimensions",
                        f"dropping z from the extruded image leaves dimensions "
                        f"{[float(x) for x in red.dimensions]}, the original has {dims_in}", t)
    by_coordinate = False
    if not _intlike(spec):  # (integer-typed images: see name_equals_index_slice)
        pos = np.zeros(3)
        pos[mz] = k + case["t"]
        zc = float(np.asarray(cs.coordinate(pos), dtype=float)[2])
        margin = 64 * np.finfo(float).eps * (abs(zc) + abs(float(cs.domain["zmax"])) + hz) / hz
        if margin < 0.05:
            by_coordinate = True
            cut = ext.slice(zc, "z")
            if cut.img.shape != arr.shape or not np.array_equal(cut.img, arr):
                raise Violation("extrude-axis:slice",
                                f"extruded.slice({zc!r}, 'z').img is not the extruded image's "
                                f"array", t)
    return Outcome(nontrivial=num > 1 and arr.size > 1,
                   key=[spec["shape"], spec["dimensions"], spec["origin"], spec["payload"],
                        spec["series"], spec["dtype"], num, height, k, spec["pseed"]],
                   labels=(f"num{num}", f"dtype-{spec['dtype']}",
                           f"payload-{spec['payload']}{'-series' if spec['series'] else ''}",
                           "origin-user" if spec["origin"] is not None else "origin-default",
                           "slice-by-coordinate" if by_coordinate else "slice-by-layer-only"),
                   evals=2 + int(by_coordinate))


# ---------------------------------------------------------------------------------------

_RULE = ("tables: every (dimension 1-3, axis, direction, str/int axis form) of to_matrix_indexing / "
         "to_cartesian_indexing / interpret_indexing, exhaustively; coordinate-system agreement: "
         "Hypothesis-drawn geometries (dim 1-3, default / user origin, power-of-two / generic / unit "
         "voxel sizes) with a unit step on every matrix axis (coordinate, coordinate_vector, voxel, "
         "length / num_voxels by name); name-vs-index: random 2-D/3-D images (float64 / float32 / "
         "uint8 / uint16 / bool; scalar / vector / series, any origin) x Cartesian axis x mode / cut "
         "position, both forms on one image object; "
         "layout: random arrays with pairwise distinct entries, 0-2 trailing payload axes, every voxel "
         "placed; VTK export: the grid nodes and cell data handed to the writer, every voxel placed "
         "(dim 1-3, function / method / extra ndarray field); extrusion: random 2-D images x layer "
         "count x height, layers read back through the name z; "
         "non-trivial = dim 1 or 3, or pairwise distinct extents; distinct = the case")

_ONE = {"quick": 1, "thorough": 1}

PROP = Prop(
    pid="C20",
    rule=_RULE,
    assumptions=[
        "the coordinate system is the arbiter of the axis pairing (2-D x<->j, y<->i reversed; 3-D "
        "x<->j, y<->k reversed, z<->i reversed; 1-D x<->i), as spelled by vf.oracles.AXES",
        "slicing by Cartesian name is asserted only for coordinates strictly inside a voxel layer",
        "cartesianToMatrixIndexing is documented 2-D only: inverse law asserted in 2-D, observed "
        "(labels) in 3-D",
        "utils/plotting.py:to_vtk is run with a recording stand-in for pyevtk.hl.gridToVTK (pyevtk "
        "is not installed): asserted is what is handed to the writer for scalar fields (grid nodes, "
        "cell placement); the component re-ordering of vector / tensor fields is not asserted",
        "the mean of an integer-typed image (reduce_axis mode 'average') is asserted up to the "
        "rounding convention (within one unit of the exact mean)",
        "slicing / reducing a 1-D image (a 0-dimensional result) is not generated",
    ],
    subs=[
        Sub("tables_agree", check_tables_agree, enum=enum_tables, exhaustive=True, shards=_ONE),
        Sub("roundtrip", check_roundtrip, enum=enum_tables, exhaustive=True, shards=_ONE),
        Sub("invalid_axis_rejected", check_invalid_rejected, enum=enum_invalid, exhaustive=True,
            shards=_ONE),
        Sub("agrees_with_coordinate_system", check_agrees_with_cs, gen=gen_geometry,
            n={"quick": 2400, "thorough": 48000}, shards={"quick": 2, "thorough": 8}),
        Sub("name_equals_index_reduce", check_name_equals_index_reduce, gen=gen_named,
            n={"quick": 3600, "thorough": 72000}, shards={"quick": 3, "thorough": 12}),
        Sub("name_equals_index_slice", check_name_equals_index_slice, gen=gen_named,
            n={"quick": 3600, "thorough": 72000}, shards={"quick": 3, "thorough": 12}),
        Sub("layout_placement", check_layout_placement, gen=gen_layout,
            n={"quick": 3600, "thorough": 72000}, shards={"quick": 3, "thorough": 12}),
        Sub("layout_inverse", check_layout_inverse,
            gen=lambda tier: gen_layout(tier, dims=(2, 2, 2, 2, 1, 3)),
            n={"quick": 2400, "thorough": 48000}, shards={"quick": 2, "thorough": 8}),
        Sub("vtk_grid_placement", check_vtk_grid_placement, gen=gen_vtk,
            n={"quick": 900, "thorough": 18000}, shards={"quick": 1, "thorough": 6}),
        Sub("extrusion_is_along_z", check_extrusion_axis, gen=gen_extrude,
            n={"quick": 600, "thorough": 12000}, shards={"quick": 1, "thorough": 4}),
    ],
)
