"""C05 - computed Wasserstein distances behave like an optimal-transport cost."""
import itertools
import warnings

import numpy as np
from hypothesis import strategies as st

import darsia
from vf import wass
from vf.oracles import RefGrid
from vf.runner import jhash, HarnessError, Outcome, Prop, Sub, Violation


# ---------------------------------------------------------------------------------------
# generators
# ---------------------------------------------------------------------------------------


def gen_pair(tier, thin_only=False, max_cells=None, weights=False, solvers=("direct",), aa=(0, 0, 2, 5)):
    mc = max_cells or ({1: 40, 2: 7, 3: 4} if tier == "quick" else {1: 40, 2: 9, 3: 5})

    @st.composite
    def strat(draw):
        if thin_only:
            dim = draw(st.sampled_from([1, 1, 2, 3]))
            n = draw(st.integers(2, 40))
            shape = [1] * dim
            shape[draw(st.integers(0, dim - 1))] = n
            g = draw(wass.grid_specs(max_cells={1: 2, 2: 2, 3: 2}, dims=(dim,)))
            g["shape"] = shape
        else:
            g = draw(wass.grid_specs(max_cells=mc, min_cells=2, dims=(1, 2, 2, 2, 3, 3)))
        o = draw(wass.option_specs(max_iter=40 if tier == "quick" else 120, solvers=solvers))
        o["aa_depth"] = draw(st.sampled_from(list(aa)))
        o["aa_restart"] = draw(st.sampled_from([None, 5])) if o["aa_depth"] else None
        o["num_iter"] = draw(st.integers(3, 40 if tier == "quick" else 120))
        if draw(st.integers(0, 6)) == 0:
            o["num_iter"] = draw(st.integers(0, 2))  # only the initial Darcy flux, or one / two steps
        o["tol"] = draw(st.sampled_from([None, 1e-8, 1e-8]))
        if o["formulation"] == "flux_reduced" and o["linear_solver"] in ("amg", "cg"):
            # known finding C08-flux-reduced-iterative (wrong linear solves): excluded by construction
            # here, the metric laws are about the transport problem, not about that back-end
            o["linear_solver"] = "direct"
        case = {"grid": g, "mass": draw(wass.mass_specs()), "opt": o}
        if weights:
            case["cweight"] = draw(st.sampled_from([0.5, 2.0, 4.0, 3.0]))
        if weights == "optional":
            case["cweight"] = draw(st.sampled_from([None, None, 0.5, 2.0, 3.0]))
        # moderate factors and far-away powers of two (tiny / huge total mass); the problem data with
        # flux units (mobility cut-off, Bregman penalty L) are scaled along by the check
        lams = [2.0**-36, 2.0, 2.0**-48, 0.5, 3.0, 2.0**-24, 0.3, 2.0**-12, 2.0**20]
        case["lam"] = draw(st.sampled_from(lams))
        return case

    return strat()


def _solve(grid, o, a, b, tags, weight=None, extra=None):
    i1, i2 = wass.make_images(grid, a, b)
    with warnings.catch_warnings():
        warnings.simplefilter("ignore")
        np.seterr(all="ignore")
        try:
            w1, g = wass.make_solver(grid, o, weight, extra)
            cap = wass.capture_solve(w1)
            wass.watch_mobility(w1, tags)
            d, info = w1(i1, i2)
        except Exception as e:  # noqa - crash: reported by the runner with these tags
            e.vf_tags = tags
            raise
    return float(d), info, cap


def _tags(case):
    g, o = case["grid"], case["opt"]
    return {"dim": len(g["shape"]), "method": o["method"], "formulation": o["formulation"],
            "solver": o["linear_solver"], "mobility": o["mobility_mode"], "l1": o["l1_mode"],
            "aa": bool(o.get("aa_depth")), "degenerate_mobility": False}


def _key(case, extra=()):
    g, o = case["grid"], case["opt"]
    return [g["shape"], g["vk"], case["mass"], o["method"], o["l1_mode"], o["mobility_mode"],
            o["formulation"], o["linear_solver"], o["aa_depth"], list(extra)]


def _labels(case, extra=()):
    g, o = case["grid"], case["opt"]
    return (f"dim{len(g['shape'])}", o["method"], o["l1_mode"], o["mobility_mode"],
            f"{o['formulation']}/{o['linear_solver']}", f"mass-{case['mass']['kind']}",
            "aa" if o["aa_depth"] else "no-aa") + tuple(extra)


def _nontrivial(case, a, b):
    g = case["grid"]
    diff = np.argwhere(a != b)
    notline = len(diff) >= 2 and np.sum(np.ptp(diff, axis=0) > 0) >= 2
    aniso = len(set(g["vox"])) > 1
    return bool(notline or aniso or case.get("cweight") is not None)


# ---------------------------------------------------------------------------------------
# 1-3 metric laws
# ---------------------------------------------------------------------------------------


def check_identity(case):
    grid, o = case["grid"], case["opt"]
    a, _ = wass.make_masses(grid["shape"], case["mass"])
    tags = _tags(case)
    d, info, cap = _solve(grid, o, a, a.copy(), tags)
    scale = a.sum() * np.prod(grid["vox"]) * np.linalg.norm(np.array(grid["shape"]) * np.array(grid["vox"]))
    if not (abs(d) <= 1e-12 * scale):
        raise Violation("identity", f"d(a,a) = {d!r}", tags)
    return Outcome(len(grid["shape"]) >= 2, _key(case), _labels(case))


def check_symmetry(case):
    grid, o = case["grid"], case["opt"]
    a, b = wass.make_masses(grid["shape"], case["mass"])
    tags = _tags(case)
    d1, i1, _ = _solve(grid, o, a, b, tags)
    d2, i2, _ = _solve(grid, o, b, a, tags)
    if not (np.isfinite(d1) and np.isfinite(d2)):
        if np.isfinite(d1) != np.isfinite(d2):
            raise Violation("symmetry-finite", f"d(a,b)={d1!r} d(b,a)={d2!r}", tags)
        return Outcome(False, _key(case), _labels(case, ("nonfinite",)), status="skipped")
    if o["aa_depth"]:
        # Anderson mixing solves an (often ill-conditioned) least-squares problem with LAPACK, whose
        # rounding is not sign-symmetric and is amplified by the mixing: only the status is compared
        return Outcome(False, _key(case), _labels(case, ("aa-symmetry-not-asserted",)), status="skipped")
    if abs(d1 - d2) > 1e-9 * max(abs(d1), abs(d2)) + 1e-14:
        raise Violation("symmetry", f"d(a,b) = {d1!r} but d(b,a) = {d2!r} ({o['method']}, "
                        f"{o['num_iter']} iterations)", tags)
    if bool(i1["converged"]) != bool(i2["converged"]):
        raise Violation("symmetry-status", "converged flag differs after swapping", tags)
    return Outcome(_nontrivial(case, a, b), _key(case), _labels(case))


_SCALE_ITERS = 8


def _scaled_run_differs(d_a, info_a, d_b, info_b, factor):
    """Compare a run with its rescaled twin (expected: every iterate's distance times `factor`).  The
    rescaled linear systems are not bitwise rescalings (only the flux block scales), so the two runs differ
    at rounding level per step, and an iteration that does not settle amplifies that from step to step
    (thorough tier: 1e-16 -> 2e-6 over 79 Newton iterations).  Asserted therefore: the recorded distances of
    the first _SCALE_ITERS iterations, the final distance if the run is no longer than that, and that the
    twin does not collapse to zero.  Returns a message or None."""
    if d_b == 0 and d_a != 0:
        return f"rescaled run returns 0.0, expected {factor * d_a!r}"
    ha = list((info_a or {}).get("convergence_history", {}).get("distance", []))
    hb = list((info_b or {}).get("convergence_history", {}).get("distance", []))
    for k in range(min(len(ha), len(hb), _SCALE_ITERS)):
        if np.isfinite(ha[k]) and not abs(hb[k] - factor * ha[k]) <= 1e-7 * factor * abs(ha[k]):
            return f"iteration {k}: distance {hb[k]!r}, expected {factor} x {ha[k]!r} = {factor * ha[k]!r}"
    if max(len(ha), len(hb)) <= _SCALE_ITERS and not abs(d_b - factor * d_a) <= 1e-7 * factor * abs(d_a):
        return f"returned distance {d_b!r}, expected {factor * d_a!r}"
    return None


def check_scaling(case):
    """d(lam a, lam b) = lam d(a, b).  The mobility cut-off ("regularization", an absolute flux norm,
    default machine eps) and the Bregman penalty L ("an approximate flux norm") are problem data in the
    units of the flux and are scaled along, and so is Newton's tolerance on the distance increment, which
    is an absolute number; then Newton and Bregman are scale-equivariant step by step,
    so the law holds for every iteration count.  A constant cell weight c multiplies the distance by c
    (every method; the cut-off, which acts on the weighted flux norm, is scaled by c).  Nothing is
    asserted when a face flux is rounding noise next to the others (weight contrast > 1e10): whether
    such a face falls under the cut-off then depends on the last bits."""
    grid, o = dict(case["grid"]), dict(case["opt"])
    a, b = wass.make_masses(grid["shape"], case["mass"])
    lam = case["lam"]
    tags = _tags(case)
    if o["aa_depth"]:
        # Anderson mixing amplifies rounding-level differences (the rescaled linear systems are not
        # bitwise rescalings: only the flux block scales, so the LU pivoting and rounding differ) to
        # 1e-6 .. 1e-1 on unconverged iterates; nothing is asserted with it
        return Outcome(False, _key(case), _labels(case, ("aa-scaling-not-asserted",)), status="skipped")
    if o["method"] == "newton":
        o["L"] = None
    L0 = o["L"] if o["L"] is not None else 1.0
    eps = float(np.finfo(float).eps)
    far = not 2.0**-10 < lam < 2.0**10
    d1, i1, _ = _solve(grid, o, a, b, tags)
    if not np.isfinite(d1) or d1 == 0:
        return Outcome(False, _key(case), _labels(case, ("nonfinite",)), status="skipped")
    labels = ["scale-far" + ("-down" if lam < 1 else "-up")] if far else []
    found = None
    zero = False  # a vanishing distance for different distributions is never rounding noise
    if o["method"] == "newton":
        ex = {"regularization": eps * lam}
        if o.get("tol") is not None:
            ex["tol_distance"] = o["tol"] * lam  # Newton stops on the *absolute* distance increment
        d2, i2, _ = _solve(grid, o, lam * a, lam * b, tags, extra=ex)
        zero = d2 == 0
        why = _scaled_run_differs(d1, i1, d2, i2, lam)
        if why:
            found = Violation("scaling:newton", f"d({lam}a,{lam}b) vs {lam} d(a,b): {why}", tags)
        labels.append("scale-newton-exact")
    else:
        o2 = dict(o, L=L0 * lam)
        d2, i2, _ = _solve(grid, dict(o, L=L0), a, b, tags)
        d3, i3, _ = _solve(grid, o2, lam * a, lam * b, tags, extra={"regularization": eps * lam})
        zero = d3 == 0 and d2 != 0
        why = _scaled_run_differs(d2, i2, d3, i3, lam)
        if why:
            found = Violation("scaling:bregman-equivariant", f"d({lam}a,{lam}b | L={lam}L0) vs {lam} d(a,b | L0): "
                              f"{why}", tags)
        labels.append("scale-bregman-equivariant")
        # at fixed L nothing is asserted: L "represents an approximate flux norm" (docstring); for
        # data much smaller than L the shrinkage removes the whole auxiliary flux, the iteration
        # stalls at the Darcy-like initial flux and is flagged converged there (observed 13 % off)
    c = case.get("cweight")
    if c is not None and found is None:
        wimg = wass.make_weight(grid, {"kind": "const", "value": c})
        ex = {"regularization": eps * c}
        if o["method"] == "newton" and o.get("tol") is not None:
            ex["tol_distance"] = o["tol"] * c
        d5, i5, _ = _solve(grid, o, a, b, tags, weight=wimg, extra=ex)
        zero = d5 == 0
        why = _scaled_run_differs(d1, i1, d5, i5, c)
        if why:
            found = Violation("scaling:weight", f"constant weight {c}: {why}", tags)
        labels.append("const-weight")
    if found is not None:
        if tags.get("mobility_contrast", 1.0) > 1e10 and not zero:
            return Outcome(False, _key(case, (lam, c)), _labels(case, labels + ["noise-level-flux-not-asserted"]),
                           status="skipped")
        raise found
    return Outcome(_nontrivial(case, a, b), _key(case, (lam, c)), _labels(case, labels))


# ---------------------------------------------------------------------------------------
# 4 first-moment bound
# ---------------------------------------------------------------------------------------


def _first_moment(grid, a, b):
    shape, vox = grid["shape"], grid["vox"]
    vol = float(np.prod(vox))
    m = np.zeros(len(shape))
    for idx in np.ndindex(*shape):
        x = (np.array(idx) + 0.5) * np.array(vox)
        m += x * (b[idx] - a[idx]) * vol
    return float(np.linalg.norm(m))


def check_first_moment(case):
    grid, o = case["grid"], case["opt"]
    a, b = wass.make_masses(grid["shape"], case["mass"])
    tags = _tags(case)
    c = case.get("cweight")
    wimg = wass.make_weight(grid, {"kind": "const", "value": c}) if c is not None else None
    d, info, cap = _solve(grid, o, a, b, tags, weight=wimg)
    if not np.isfinite(d):
        return Outcome(False, _key(case), _labels(case, ("nonfinite",)), status="skipped")
    bound = _first_moment(grid, a, b) * (c if c is not None else 1.0)
    # only a mass-conserving flux is covered by the bound
    ref = RefGrid(grid["shape"], grid["vox"])
    u = cap["solution"][: ref.num_faces]
    res = np.abs(ref.divergence() @ u - ref.vol * (b - a).ravel("F")).max()
    slack = 1e-9 * (abs(bound) + abs(d)) + res * np.linalg.norm(np.array(grid["shape"]) * np.array(grid["vox"])) * ref.num_cells
    if d < bound - slack:
        raise Violation("first-moment", f"distance {d!r} below the first-moment displacement {bound!r} "
                        f"({o['method']}, {len(info['convergence_history']['distance'])} iterations)", tags)
    return Outcome(_nontrivial(case, a, b), _key(case, (c,)),
                   _labels(case, ("tight" if d < 1.05 * bound + 1e-12 else "slack",)))


# ---------------------------------------------------------------------------------------
# 5 brute-force bound on grids with few independent cycles
# ---------------------------------------------------------------------------------------

SMALL = [[2, 2], [2, 3], [3, 2], [2, 4], [4, 2], [3, 3], [2, 2, 2], [2, 5], [1, 2, 3], [2, 1, 3], [2, 2, 1],
         [3, 1, 3], [2, 3, 1], [3, 4], [4, 3], [2, 7], [7, 2], [3, 3], [2, 5], [5, 2]]


class FastCost:
    """The library's discrete cost functional assembled once per case as index arrays (linear RT0
    interpolation per quadrature point), evaluated vectorised; self-checked against the library."""

    def __init__(self, ref, l1_mode):
        self.ref = ref
        dim, shape = ref.dim, ref.shape
        self.pts, self.wts = wass.ref_quadrature(dim, l1_mode)
        nc = ref.num_cells
        self.lo = np.full((nc, dim), ref.num_faces, dtype=int)  # index num_faces -> appended zero
        self.hi = np.full((nc, dim), ref.num_faces, dtype=int)
        for k, idx in enumerate(np.ndindex(*shape)):
            for d in range(dim):
                l = list(idx)
                l[d] -= 1
                f_lo, f_hi = ref.face_of(d, tuple(l)), ref.face_of(d, idx)
                if f_lo >= 0:
                    self.lo[k, d] = f_lo
                if f_hi >= 0:
                    self.hi[k, d] = f_hi

    def __call__(self, u, eps=0.0):
        ue = np.append(u, 0.0)
        lo, hi = ue[self.lo], ue[self.hi]
        tot = 0.0
        for p, w in zip(self.pts, self.wts):
            v = (1 - p) * lo + p * hi
            tot += w * np.sum(np.sqrt(np.sum(v * v, axis=1) + eps * eps))
        return float(tot * self.ref.vol)

    def grad(self, u, eps):
        ue = np.append(u, 0.0)
        lo, hi = ue[self.lo], ue[self.hi]
        g = np.zeros(len(ue))
        val = 0.0
        for p, w in zip(self.pts, self.wts):
            v = (1 - p) * lo + p * hi
            n = np.sqrt(np.sum(v * v, axis=1) + eps * eps)
            val += w * np.sum(n)
            dv = w * v / n[:, None]
            np.add.at(g, self.lo, dv * (1 - p))
            np.add.at(g, self.hi, dv * p)
        return float(val * self.ref.vol), g[:-1] * self.ref.vol


def _cycle_basis(ref):
    D = ref.divergence()
    _, s, vt = np.linalg.svd(D)
    rank = int(np.sum(s > 1e-10 * s.max())) if len(s) else 0
    return vt[rank:].T  # faces x ncycles, orthonormal


def brute_force_lower_bound(ref, a, b, l1_mode):
    """Certified lower bound on min cost over {u : D u = vol (b-a)}: minimise the eps-smoothed
    (smooth, convex) functional with BFGS; cost >= cost_eps - eps |Omega| and, by convexity,
    cost_eps(u) - min cost_eps <= |grad| * R."""
    from scipy.optimize import minimize

    f = ref.vol * (b - a).ravel("F")
    D = ref.divergence()
    up = np.linalg.lstsq(D, f, rcond=None)[0]
    if np.abs(D @ up - f).max() > 1e-9 * (1 + np.abs(f).max()):
        raise HarnessError("particular solution does not conserve mass")
    Z = _cycle_basis(ref)
    fc = FastCost(ref, l1_mode)
    scale = max(fc(up), 1e-12)
    eps = 1e-7 * np.abs(up).max()
    omega = ref.vol * ref.num_cells
    if Z.shape[1] == 0:
        return fc(up), fc(up), up, fc

    def fun(c):
        v, g = fc.grad(up + Z @ c, eps)
        return v, Z.T @ g

    best = None
    c0 = np.zeros(Z.shape[1])
    for e in (1e-2, 1e-4, eps / max(np.abs(up).max(), 1e-300)):
        ee = e * np.abs(up).max()

        def fun_e(c, ee=ee):
            v, g = fc.grad(up + Z @ c, ee)
            return v, Z.T @ g

        r = minimize(fun_e, c0, jac=True, method="BFGS", options={"gtol": 1e-12 * scale, "maxiter": 2000})
        c0 = r.x
    v, g = fun(c0)
    gn = float(np.linalg.norm(g))
    R = 10.0 * (np.linalg.norm(up) + np.linalg.norm(c0) + 1.0)
    lower = v - gn * R - eps * omega
    upper = fc(up + Z @ c0)
    return lower, upper, up + Z @ c0, fc


def gen_bf(tier):
    @st.composite
    def strat(draw):
        shape = draw(st.sampled_from(SMALL))
        g = draw(wass.grid_specs(max_cells={1: 2, 2: 2, 3: 2}, dims=(len(shape),)))
        g["shape"] = list(shape)
        o = draw(wass.option_specs(max_iter=60, solvers=("direct",)))
        o["num_iter"] = draw(st.integers(1, 60))
        o["tol"] = draw(st.sampled_from([None, 1e-8]))
        return {"grid": g, "mass": draw(wass.mass_specs()), "opt": o}

    return strat()


def check_bruteforce(case):
    grid, o = case["grid"], case["opt"]
    a, b = wass.make_masses(grid["shape"], case["mass"])
    tags = _tags(case)
    ref = RefGrid(grid["shape"], grid["vox"])
    ncyc = ref.num_faces - ref.num_cells + 1
    if ncyc > 6:
        return Outcome(False, _key(case), (), status="skipped")
    d, info, cap = _solve(grid, o, a, b, tags)
    if not np.isfinite(d):
        return Outcome(False, _key(case), _labels(case, ("nonfinite",)), status="skipped")
    lower, upper, ubest, fc = brute_force_lower_bound(ref, a, b, o["l1_mode"])
    # self-check of the fast functional against the library on the captured flux
    u = cap["solution"][: ref.num_faces]
    with warnings.catch_warnings():
        warnings.simplefilter("ignore")
        w1, _ = wass.make_solver(grid, o)
        own = float(w1.l1_dissipation(ubest))
    if abs(own - fc(ubest)) > 1e-9 * max(abs(own), 1e-12):
        # the minimum is taken over the discrete transport cost as defined (RT0 interpolation of the face
        # fluxes + the quadrature of the L1 mode), written out independently in FastCost; the library's
        # functional has to be that cost, otherwise "the true minimum of the discrete transport cost"
        # and the reported distances are not about the same quantity
        raise Violation("cost-functional-differs", f"l1_dissipation of a mass-conserving flux = {own!r}, the discrete "
                        f"transport cost of that flux (RT0 interpolation, {o['l1_mode']} quadrature) = {fc(ubest)!r}",
                        tags)
    if upper - lower > 1e-3 * max(upper, 1e-12):
        return Outcome(False, _key(case), _labels(case, ("bf-uncertified",)), status="skipped")
    res = np.abs(ref.divergence() @ u - ref.vol * (b - a).ravel("F")).max()
    if res > 1e-8 * (1 + np.abs(ref.vol * (b - a)).max()):
        return Outcome(False, _key(case), _labels(case, ("not-conserving",)), status="skipped")
    if d < lower - 1e-6 * max(lower, 1e-12):
        raise Violation("below-minimum", f"distance {d!r} below the brute-force minimum {lower!r} of the "
                        f"discrete cost over all mass-conserving fluxes ({ncyc} cycles)", tags)
    gap = (d - upper) / max(upper, 1e-12)
    return Outcome(True, _key(case), _labels(case, (f"cycles{ncyc}", "gap<1e-3" if gap < 1e-3 else
                                                    ("gap<5%" if gap < 0.05 else "gap>=5%"))))


# ---------------------------------------------------------------------------------------
# 6 unique flux on 1-D / one-cell-thin grids
# ---------------------------------------------------------------------------------------


def _unique_flux(ref, a, b):
    f = ref.vol * (b - a).ravel("F")
    D = ref.divergence()
    u = np.linalg.lstsq(D, f, rcond=None)[0]
    return u


def check_unique_flux(case):
    grid, o = case["grid"], case["opt"]
    a, b = wass.make_masses(grid["shape"], case["mass"])
    tags = _tags(case)
    ref = RefGrid(grid["shape"], grid["vox"])
    if ref.num_faces != ref.num_cells - 1:
        raise HarnessError("grid is not thin")
    d, info, cap = _solve(grid, o, a, b, tags)
    if not np.isfinite(d):
        return Outcome(False, _key(case), _labels(case, ("nonfinite",)), status="skipped")
    u = _unique_flux(ref, a, b)
    want, _ = wass.ref_cost(ref, u, o["l1_mode"])
    ucap = cap["solution"][: ref.num_faces]
    # linear-solver precision is relative to the largest entry that went through a linear solve
    lin = 1e-9 if o["linear_solver"] == "direct" else 1e-6
    if abs(d - want) > lin * (max(abs(want), 1e-12) + cap["linmax"] * ref.vol * ref.num_cells):
        tags["anderson_at_noise_floor"] = wass.anderson_at_noise_floor(o, info)
        raise Violation("unique-flux-cost", f"distance {d!r}, cost of the unique mass-conserving flux {want!r} "
                        f"({o['method']}, {o['mobility_mode']}, {o['formulation']}/{o['linear_solver']}, "
                        f"max|u-u*| = {np.abs(ucap - u).max():.2e})", tags)
    return Outcome(True, _key(case), _labels(case, ("zero-crossing" if np.any(u[:-1] * u[1:] < 0) else "one-signed",)))


# ---------------------------------------------------------------------------------------
# 7 front-end dispatch
# ---------------------------------------------------------------------------------------


def _same_float(x, y):
    return x == y or (np.isnan(x) and np.isnan(y))


def check_frontend(case):
    """wasserstein_distance(m1, m2, method, weight, options=...) is pure dispatch: it returns exactly what
    the back-end class it selects returns - for every return form - on the grid of the images."""
    grid, o = case["grid"], case["opt"]
    a, b = wass.make_masses(grid["shape"], case["mass"])
    tags = _tags(case)
    i1, i2 = wass.make_images(grid, a, b)
    c = case.get("cweight")
    wimg = wass.make_weight(grid, {"kind": "const", "value": c}) if c is not None else None
    opts = wass.make_options(o)
    opts["return_info"] = False
    # options the caller leaves out are left to the back-end's own defaults by both routes (every route gets
    # a fresh copy of the dictionary)
    omitted = [k for k in ("l1_mode", "mobility_mode", "formulation", "linear_solver")
               if (jhash([case["mass"]["pseed"], k, "omit"])[0] in "0123")]
    if o["formulation"] == "full" or o["linear_solver"] != "direct":
        omitted = [k for k in omitted if k not in ("formulation", "linear_solver")]  # keep the pair consistent
    for k in omitted:
        opts.pop(k, None)
    method = "newton" if o["method"] == "newton" else "bregman"
    cls = darsia.WassersteinDistanceNewton if method == "newton" else darsia.WassersteinDistanceBregman
    labels = ["weighted" if c else "unweighted"] + [f"omits-{k}" for k in omitted] + (["omits-nothing"] if not omitted else [])
    # the back-end first, observed: a failure of the front-end counts as the degenerate-mobility finding
    # only if the back-end fails in the same way on the same problem
    back_exc = None
    with warnings.catch_warnings():
        warnings.simplefilter("ignore")
        np.seterr(all="ignore")
        try:
            w1 = cls(darsia.generate_grid(i1), wimg, dict(opts))
            cap = wass.capture_solve(w1)
            wass.watch_mobility(w1, tags)
            back = w1(i1, i2)
            w1.options["return_status"] = True
            back_status = w1(i1, i2)
        except Exception as e:  # noqa
            back_exc = e
        try:
            front = darsia.wasserstein_distance(i1, i2, method, weight=wimg, options=dict(opts))
            front_status = darsia.wasserstein_distance(i1, i2, method, weight=wimg,
                                                       options=dict(opts, return_status=True))
        except Exception as e:  # noqa
            if back_exc is not None and type(e) is type(back_exc):
                back_exc.vf_tags = dict(tags)
                raise back_exc
            e.vf_tags = dict(tags, degenerate_mobility=False)
            raise
    if back_exc is not None:
        raise Violation("frontend-masks-failure", f"the back-end raises {type(back_exc).__name__} but the front-end "
                        f"returns {front!r}", tags)
    if not _same_float(front, back):
        raise Violation("frontend", f"wasserstein_distance(...) = {front!r} but the back-end returns {back!r}", tags)
    if not (isinstance(front_status, tuple) and len(front_status) == 2 and isinstance(back_status, tuple)
            and _same_float(front_status[0], back_status[0]) and bool(front_status[1]) == bool(back_status[1])):
        raise Violation("frontend-status", f"return_status form: front-end {front_status!r}, back-end {back_status!r}",
                        tags)
    # the grid the front-end builds is the grid of the images: on one-cell-thin grids the value is the cost of
    # the unique mass-conserving flux (independent of generate_grid, which is on both sides above)
    big = [s_ for s_ in grid["shape"] if s_ >= 2]
    if len(big) == 1 and c is None and np.isfinite(front) and not tags.get("degenerate_mobility") and \
            o["linear_solver"] == "direct" and o["num_iter"] >= 1 and not o["aa_depth"]:
        ref = RefGrid(grid["shape"], grid["vox"])
        want, _ = wass.ref_cost(ref, _unique_flux(ref, a, b),
                                "RAVIART_THOMAS" if "l1_mode" in omitted else o["l1_mode"])  # documented default
        if abs(front - want) > 1e-9 * (max(abs(want), 1e-12) + cap["linmax"] * ref.vol * ref.num_cells):
            raise Violation("frontend-grid", f"front-end {front!r}, cost of the unique flux on the image's grid "
                            f"{want!r}", tags)
        labels.append("thin-independent")
    # method names in other capitalisation: either rejected as unknown or dispatched like the lower-case name
    with warnings.catch_warnings():
        warnings.simplefilter("ignore")
        try:
            up = darsia.wasserstein_distance(i1, i2, method.capitalize(), weight=wimg, options=dict(opts))
        except NotImplementedError:
            up = None
        except Exception as e:  # noqa
            e.vf_tags = dict(tags)
            raise
    if up is not None and not _same_float(up, front):
        raise Violation("frontend-case", f"method {method.capitalize()!r} is accepted but returns {up!r}, "
                        f"{method!r} returns {front!r}", tags)
    if len(grid["shape"]) == 2 and c is None and int(np.prod(grid["shape"])) <= 64:
        e1 = darsia.wasserstein_distance(i1, i2, "cv2.emd")
        e2 = darsia.EMD()(i1, i2)
        if e1 != e2:
            raise Violation("frontend-emd", f"{e1!r} vs {e2!r}", tags)
        e3 = darsia.wasserstein_distance(i1, i2, "cv2.emd", preprocess=_doubled_copy)
        e4 = darsia.EMD(_doubled_copy)(i1, i2)
        if e3 != e4 or abs(e3 - 2 * e1) > 1e-5 * max(abs(e1), 1e-300):
            raise Violation("frontend-emd-preprocess", f"with a preprocess that doubles the mass: front-end {e3!r}, "
                            f"EMD {e4!r}, without preprocess {e1!r}", tags)
        labels.append("emd-branch")
    try:
        darsia.wasserstein_distance(i1, i2, "sinkhorn")
    except NotImplementedError:
        pass
    else:
        raise Violation("frontend-unknown", "unknown method accepted", tags)
    return Outcome(True, _key(case, (c,)), _labels(case, labels))


def _doubled_copy(img):
    out = img.copy()
    out.img = out.img * 2
    return out


# ---------------------------------------------------------------------------------------
# 7b storage type of the images
# ---------------------------------------------------------------------------------------


def gen_dtype(tier):
    @st.composite
    def strat(draw):
        case = draw(gen_pair(tier, weights="optional", aa=(0,)))
        case["dtype"] = draw(st.sampled_from(["uint8", "uint16", "int32", "int64", "float32"]))
        case["frontend"] = draw(st.booleans())
        return case

    return strat()


def check_dtype(case):
    """The distance is a function of the distributions, not of the type they are stored in: images whose
    pixel data are held exactly in an integer or single-precision type (photographs) give the distance
    of the same values held as float64 - in both directions (an unsigned difference must not wrap)."""
    grid, o = case["grid"], case["opt"]
    a, b = wass.make_masses(grid["shape"], case["mass"])
    tags = dict(_tags(case), dtype=case["dtype"])
    dt = wass.storage_dtype(a, b, case["dtype"])
    if dt == np.dtype(float):
        return Outcome(False, _key(case), _labels(case, ("not-representable",)), status="skipped")
    c = case.get("cweight")
    wimg = wass.make_weight(grid, {"kind": "const", "value": c}) if c is not None else None
    opts = wass.make_options(o)
    opts["return_info"] = False
    method = "newton" if o["method"] == "newton" else "bregman"
    cls = darsia.WassersteinDistanceNewton if method == "newton" else darsia.WassersteinDistanceBregman

    def dist(x, y, dtype):
        i1, i2 = wass.make_images(grid, x, y, dtype)
        if case["frontend"]:
            return float(darsia.wasserstein_distance(i1, i2, method, weight=wimg, options=dict(opts)))
        w1 = cls(darsia.generate_grid(i1), wimg, dict(opts))
        wass.watch_mobility(w1, tags)
        return float(w1(i1, i2))

    with warnings.catch_warnings():
        warnings.simplefilter("ignore")
        np.seterr(all="ignore")
        try:
            ref_ab, ref_ba = dist(a, b, None), dist(b, a, None)
            got_ab, got_ba = dist(a, b, case["dtype"]), dist(b, a, case["dtype"])
        except Exception as e:  # noqa
            e.vf_tags = tags
            raise
    for name, got, want in (("d(a,b)", got_ab, ref_ab), ("d(b,a)", got_ba, ref_ba)):
        if not (_same_float(got, want) or abs(got - want) <= 1e-12 * abs(want)):
            raise Violation(f"dtype:{'unsigned' if case['dtype'].startswith('u') else case['dtype']}",
                            f"{name} of {case['dtype']} images = {got!r}, of the same values as float64 = {want!r} "
                            f"({method}{', front-end' if case['frontend'] else ''})", tags)
    return Outcome(_nontrivial(case, a, b), _key(case, (case["dtype"],)),
                   _labels(case, ("dtype-" + case["dtype"], "frontend" if case["frontend"] else "class")))


# ---------------------------------------------------------------------------------------
# 8 OpenCV earth mover's distance
# ---------------------------------------------------------------------------------------


def gen_emd(tier):
    @st.composite
    def strat(draw):
        shape = [draw(st.integers(1, 8)), draw(st.integers(1, 8))]
        if shape == [1, 1]:
            shape = [1, 2]
        vk = draw(st.sampled_from(["unit", "pow2", "generic"]))
        vox = {"unit": [1.0, 1.0], "pow2": [0.5, 2.0], "generic": [0.3, 0.7]}[vk]
        if draw(st.booleans()):
            vox = vox[::-1]
        return {"shape": shape, "vox": vox, "vk": vk,
                "kind": draw(st.sampled_from(["single", "dense", "sparse", "series"])),
                "pseed": draw(st.integers(0, 2**20)),
                "lam": draw(st.sampled_from([2.0, 0.5, 3.0, 10.0, 0.3 * 2.0**-60, 2.0**-40, 2.0**40, 3 * 2.0**70])),
                "nt": draw(st.integers(2, 3))}

    return strat()


def check_emd(case):
    shape, vox = case["shape"], case["vox"]
    grid = {"shape": shape, "vox": vox}
    t = {"vk": case["vk"], "kind": case["kind"]}
    rng = np.random.default_rng(case["pseed"])
    vol = float(np.prod(vox))
    emd = darsia.EMD()
    if case["kind"] == "series":
        pairs = [wass.make_masses(shape, {"kind": "dense", "pseed": case["pseed"] + k}) for k in range(case["nt"])]
        A = np.stack([p[0] for p in pairs], axis=-1)
        B = np.stack([p[1] for p in pairs], axis=-1)
        dims = [s * v for s, v in zip(shape, vox)]
        kw = dict(space_dim=2, scalar=True, series=True, time=[float(k) for k in range(case["nt"])])
        I1 = darsia.Image(A, dimensions=list(dims), **kw)
        I2 = darsia.Image(B, dimensions=list(dims), **kw)
        got = np.asarray(emd(I1, I2))
        if got.shape != (case["nt"],):
            raise Violation("emd-series-shape", f"{got.shape}", t)
        for k, (a, b) in enumerate(pairs):
            i1, i2 = wass.make_images(grid, a, b)
            single = emd(i1, i2)
            if abs(single - got[k]) > 1e-5 * max(abs(single), 1e-12):
                raise Violation("emd-series", f"slice {k}: series value {got[k]!r} vs single {single!r}", t)
        return Outcome(True, case, ("series",))
    a, b = wass.make_masses(shape, {"kind": case["kind"], "pseed": case["pseed"]})
    i1, i2 = wass.make_images(grid, a, b)
    d = emd(i1, i2)
    mass = a.sum() * vol
    diam = np.linalg.norm(np.array(shape) * np.array(vox))
    tol = 2e-5 * mass * diam
    if case["kind"] == "single":
        p = np.argwhere(a > 0)[0]
        q = np.argwhere(b > 0)[0]
        want = a.sum() * vol * np.linalg.norm((p - q) * np.array(vox))
        if abs(d - want) > tol:
            raise Violation("emd-single-cell", f"mass {a.sum()} from {p.tolist()} to {q.tolist()}, voxel "
                            f"{vox}: EMD {d!r}, mass x distance {want!r}", t)
    d2 = emd(i2, i1)
    if abs(d - d2) > tol:
        raise Violation("emd-symmetry", f"{d!r} vs {d2!r}", t)
    lam = case["lam"]
    j1, j2 = wass.make_images(grid, lam * a, lam * b)
    d3 = emd(j1, j2)
    if abs(d3 - lam * d) > lam * tol:
        raise Violation("emd-scaling", f"{d3!r} vs {lam * d!r}", t)
    bound = _first_moment(grid, a, b)
    if d < bound - tol:
        raise Violation("emd-first-moment", f"EMD {d!r} below the first-moment displacement {bound!r}", t)
    d0 = emd(i1, i1)
    if abs(d0) > tol:
        raise Violation("emd-identity", f"EMD(a,a) = {d0!r}", t)
    # the pairwise table of a list of images is the table of the pairwise distances
    M = np.asarray(emd.distance_matrix([i1, i2, j1]) if lam * a.sum() == a.sum() else emd.distance_matrix([i1, i2, i1]))
    if M.shape != (3, 3) or abs(M[0, 1] - d) > tol or abs(M[1, 0] - d) > tol or np.any(np.diag(M) != 0) or \
            abs(M[0, 2]) > tol or abs(M[1, 2] - d) > tol:
        raise Violation("emd-distance-matrix", f"distance_matrix([a, b, a]) = {M.tolist()}, EMD(a, b) = {d!r}", t)
    # never above the cost of any transport plan, e.g. moving everything via the barycentre: crude
    # upper bound mass x diameter
    if d > mass * diam + tol:
        raise Violation("emd-upper", f"EMD {d!r} above mass x diameter {mass * diam!r}", t)
    return Outcome(len(set(vox)) > 1 or case["kind"] != "single", case,
                   (case["kind"], case["vk"], "scale-far" if not 2.0**-10 < lam < 2.0**10 else "scale-moderate"))


_RULE = ("Hypothesis draws grids (1-3-D, anisotropic voxels), equal-mass integer-valued pairs, method / L1 / "
         "mobility / formulation options, iteration counts, tolerances, rescaling factors and constant "
         "weights; brute-force bound on all grids with <= 6 independent flux cycles; unique-flux cost on "
         "1-D and n x 1 (x 1) grids up to 40 cells; cv2 EMD on 2-D grids up to 8x8; non-trivial = the pair "
         "differs in >= 2 cells not on one line, or anisotropic voxels, or a weight != 1")

PROP = Prop(
    pid="C05",
    rule=_RULE,
    assumptions=[
        "symmetry is asserted for every run (the iterations are odd in the mass difference); mass scaling is "
        "asserted exactly for Newton and for Bregman with the penalty L scaled along (both without Anderson "
        "acceleration), not at all for Bregman at fixed L (L is documented as an approximate flux norm; for "
        "data much smaller than L the iteration stalls at the initial flux and is flagged converged there); "
        "near-optimality is NOT asserted, only the lower bounds",
        "brute-force minimum: BFGS on the eps-smoothed convex functional in the cycle space with a certified "
        "gap (skipped when the certificate is wider than 1e-3); the fast functional is self-checked against "
        "the library's l1_dissipation",
        "cv2.EMD works in float32: tolerance 2e-5 x mass x diameter",
    ],
    subs=[
        Sub("identity", check_identity, gen=lambda t: gen_pair(t), n={"quick": 60, "thorough": 1500},
            shards={"quick": 2, "thorough": 8}),
        Sub("symmetry", check_symmetry, gen=lambda t: gen_pair(t, solvers=("direct", "amg", "cg"), aa=(0, 0, 0, 2)),
            n={"quick": 90, "thorough": 2500}, shards={"quick": 3, "thorough": 16}),
        Sub("scaling", check_scaling, gen=lambda t: gen_pair(t, weights=True, aa=(0,)),
            n={"quick": 90, "thorough": 2500}, shards={"quick": 3, "thorough": 16}),
        Sub("first_moment_bound", check_first_moment, gen=lambda t: gen_pair(t, weights=True),
            n={"quick": 120, "thorough": 3000}, shards={"quick": 3, "thorough": 16}),
        Sub("bruteforce_bound", check_bruteforce, gen=gen_bf, n={"quick": 120, "thorough": 3000},
            shards={"quick": 4, "thorough": 16}),
        Sub("unique_flux_cost", check_unique_flux,
            gen=lambda t: gen_pair(t, thin_only=True, solvers=("direct", "amg", "cg")),
            n={"quick": 200, "thorough": 5000}, shards={"quick": 4, "thorough": 16}),
        Sub("frontend_dispatch", check_frontend, gen=lambda t: gen_pair(t, weights="optional"),
            n={"quick": 60, "thorough": 1500}, shards={"quick": 2, "thorough": 8}),
        Sub("storage_type_invariance", check_dtype, gen=gen_dtype, n={"quick": 60, "thorough": 1500},
            shards={"quick": 3, "thorough": 16}),
        Sub("emd", check_emd, gen=gen_emd, n={"quick": 300, "thorough": 10000},
            shards={"quick": 3, "thorough": 16}),
    ],
)
