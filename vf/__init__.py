"""Property-based verification framework for pmgbergen/DarSIA (see /verif/DESIGN.md)."""
